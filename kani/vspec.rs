// vspec.rs -- the specification vocabulary of the contracts (cfg(kani) only).
//
// Written from the property statements and the rules of Arimaa in "mailbox"
// style (one square at a time, file/rank arithmetic), on purpose unlike the
// implementation (no masks, no shifts of whole boards).  Everything in here
// only uses the crate's public API.  It is woven into the copy of the crate as
// `crate::vspec` (see tools/weave.py); nothing in /repo refers to it.
#![allow(dead_code)]
#![allow(unused_macros)]

use crate::{Action, Direction, Piece, PieceBoardState, Square, Terminal};

// ---------------------------------------------------------------- geometry
pub fn bit(b: u64, i: u8) -> bool {
    (b >> i) & 1 == 1
}
/// file 0..7 = a..h
pub fn file_of(i: u8) -> u8 {
    i % 8
}
/// rank 1..8 as printed; bit 0 = a8, bit 63 = h1
pub fn rank_of(i: u8) -> u8 {
    8 - i / 8
}
pub fn sq_index(file: u8, rank: u8) -> u8 {
    (8 - rank) * 8 + file
}
pub fn nbr(i: u8, d: Direction) -> Option<u8> {
    let f = file_of(i);
    let r = rank_of(i);
    match d {
        Direction::Up => {
            if r < 8 {
                Some(sq_index(f, r + 1))
            } else {
                None
            }
        }
        Direction::Down => {
            if r > 1 {
                Some(sq_index(f, r - 1))
            } else {
                None
            }
        }
        Direction::Left => {
            if f > 0 {
                Some(sq_index(f - 1, r))
            } else {
                None
            }
        }
        Direction::Right => {
            if f < 7 {
                Some(sq_index(f + 1, r))
            } else {
                None
            }
        }
    }
}
pub const DIRS: [Direction; 4] = [
    Direction::Up,
    Direction::Right,
    Direction::Down,
    Direction::Left,
];
pub fn dir_ord(d: Direction) -> u8 {
    match d {
        Direction::Up => 0,
        Direction::Right => 1,
        Direction::Down => 2,
        Direction::Left => 3,
    }
}
pub fn opp_dir(d: Direction) -> Direction {
    match d {
        Direction::Up => Direction::Down,
        Direction::Down => Direction::Up,
        Direction::Left => Direction::Right,
        Direction::Right => Direction::Left,
    }
}
/// exists over the four directions, unrolled (no loop for CBMC to unwind)
pub fn any_dir<F: Fn(Direction) -> bool>(f: F) -> bool {
    f(Direction::Up) || f(Direction::Right) || f(Direction::Down) || f(Direction::Left)
}
/// c3, f3, c6, f6 computed from file letter / rank number
pub fn is_trap(i: u8) -> bool {
    let f = file_of(i);
    let r = rank_of(i);
    (f == 2 || f == 5) && (r == 3 || r == 6)
}
pub const TRAPS: [u8; 4] = [18, 21, 42, 45];

// ------------------------------------------------------------ abstract view
pub fn strength(p: Piece) -> u8 {
    match p {
        Piece::Rabbit => 1,
        Piece::Cat => 2,
        Piece::Dog => 3,
        Piece::Horse => 4,
        Piece::Camel => 5,
        Piece::Elephant => 6,
    }
}
/// the abstract view of the eight words: what stands on square i
pub fn at(pb: &PieceBoardState, i: u8) -> Option<(Piece, bool)> {
    let gold = bit(pb.p1_pieces, i);
    if bit(pb.elephants, i) {
        Some((Piece::Elephant, gold))
    } else if bit(pb.camels, i) {
        Some((Piece::Camel, gold))
    } else if bit(pb.horses, i) {
        Some((Piece::Horse, gold))
    } else if bit(pb.dogs, i) {
        Some((Piece::Dog, gold))
    } else if bit(pb.cats, i) {
        Some((Piece::Cat, gold))
    } else if bit(pb.rabbits, i) {
        Some((Piece::Rabbit, gold))
    } else {
        None
    }
}
pub fn type_word(pb: &PieceBoardState, p: Piece) -> u64 {
    match p {
        Piece::Elephant => pb.elephants,
        Piece::Camel => pb.camels,
        Piece::Horse => pb.horses,
        Piece::Dog => pb.dogs,
        Piece::Cat => pb.cats,
        Piece::Rabbit => pb.rabbits,
    }
}
/// C10 structural part: every occupied square has exactly one type and an
/// owner, all_pieces is the union, ownership only on occupied squares.
pub fn board_wf(pb: &PieceBoardState) -> bool {
    let e = pb.elephants;
    let m = pb.camels;
    let h = pb.horses;
    let d = pb.dogs;
    let c = pb.cats;
    let r = pb.rabbits;
    let disjoint = (e & m) == 0
        && ((e | m) & h) == 0
        && ((e | m | h) & d) == 0
        && ((e | m | h | d) & c) == 0
        && ((e | m | h | d | c) & r) == 0;
    disjoint && pb.all_pieces == (e | m | h | d | c | r) && (pb.p1_pieces & !pb.all_pieces) == 0
}
/// per square restatement (used to tie board_wf to `at`)
pub fn board_wf_at(pb: &PieceBoardState, i: u8) -> bool {
    let n = bit(pb.elephants, i) as u8
        + bit(pb.camels, i) as u8
        + bit(pb.horses, i) as u8
        + bit(pb.dogs, i) as u8
        + bit(pb.cats, i) as u8
        + bit(pb.rabbits, i) as u8;
    n <= 1 && bit(pb.all_pieces, i) == (n == 1) && (!bit(pb.p1_pieces, i) || n == 1)
}
pub fn count(pb: &PieceBoardState, p: Piece, gold: bool) -> u32 {
    let side = if gold { pb.p1_pieces } else { !pb.p1_pieces };
    (type_word(pb, p) & side).count_ones()
}
pub fn complement(p: Piece) -> u32 {
    match p {
        Piece::Elephant => 1,
        Piece::Camel => 1,
        Piece::Horse => 2,
        Piece::Dog => 2,
        Piece::Cat => 2,
        Piece::Rabbit => 8,
    }
}
pub fn all_pieces_pt<F: Fn(Piece) -> bool>(f: F) -> bool {
    f(Piece::Elephant) && f(Piece::Camel) && f(Piece::Horse) && f(Piece::Dog) && f(Piece::Cat) && f(Piece::Rabbit)
}
/// C10 material clause
pub fn material_ok(pb: &PieceBoardState) -> bool {
    all_pieces_pt(|p| count(pb, p, true) <= complement(p) && count(pb, p, false) <= complement(p))
}
pub fn has_friend_nbr(pb: &PieceBoardState, i: u8, gold: bool) -> bool {
    any_dir(|d| match nbr(i, d) {
        Some(j) => match at(pb, j) {
            Some((_, g2)) => g2 == gold,
            None => false,
        },
        None => false,
    })
}
/// no piece stands on a trap without an orthogonally adjacent friend
pub fn trap_clean(pb: &PieceBoardState) -> bool {
    let ok = |t: u8| match at(pb, t) {
        Some((_, g)) => has_friend_nbr(pb, t, g),
        None => true,
    };
    ok(TRAPS[0]) && ok(TRAPS[1]) && ok(TRAPS[2]) && ok(TRAPS[3])
}
/// a legal position in the sense of the properties' quantifiers
pub fn legal_board(pb: &PieceBoardState) -> bool {
    board_wf(pb) && trap_clean(pb)
}

// ------------------------------------------------------------------- rules
pub fn frozen(pb: &PieceBoardState, i: u8) -> bool {
    match at(pb, i) {
        None => false,
        Some((t, g)) => {
            let threat = any_dir(|d| match nbr(i, d) {
                Some(j) => match at(pb, j) {
                    Some((t2, g2)) => g2 != g && strength(t2) > strength(t),
                    None => false,
                },
                None => false,
            });
            threat && !has_friend_nbr(pb, i, g)
        }
    }
}
pub fn backward(side_gold: bool) -> Direction {
    if side_gold {
        Direction::Down
    } else {
        Direction::Up
    }
}
/// a single step of an unfrozen friendly piece onto an empty adjacent square
pub fn simple_step(pb: &PieceBoardState, side: bool, i: u8, d: Direction) -> bool {
    match (at(pb, i), nbr(i, d)) {
        (Some((t, g)), Some(j)) => {
            g == side && !frozen(pb, i) && at(pb, j).is_none() && !(t == Piece::Rabbit && d == backward(side))
        }
        _ => false,
    }
}
/// square i (holding an enemy of type t) has an unfrozen strictly stronger piece of `side` next to it
pub fn has_unfrozen_stronger_nbr(pb: &PieceBoardState, side: bool, i: u8, t: Piece) -> bool {
    any_dir(|d| match nbr(i, d) {
        Some(j) => match at(pb, j) {
            Some((t2, g2)) => g2 == side && strength(t2) > strength(t) && !frozen(pb, j),
            None => false,
        },
        None => false,
    })
}
/// first half of a push: displace a weaker enemy next to an unfrozen stronger friend; needs a step left to complete
pub fn push_start(pb: &PieceBoardState, side: bool, step: usize, i: u8, d: Direction) -> bool {
    step < 3
        && match (at(pb, i), nbr(i, d)) {
            (Some((t, g)), Some(j)) => g != side && at(pb, j).is_none() && has_unfrozen_stronger_nbr(pb, side, i, t),
            _ => false,
        }
}
/// second half of a pull: a strictly weaker enemy steps into the square `psq` just vacated by a piece of type pt
pub fn pull_complete(pb: &PieceBoardState, side: bool, psq: u8, pt: Piece, i: u8, d: Direction) -> bool {
    match (at(pb, i), nbr(i, d)) {
        (Some((t, g)), Some(j)) => g != side && j == psq && at(pb, j).is_none() && strength(pt) > strength(t),
        _ => false,
    }
}
/// second half of a push: an unfrozen strictly stronger friend steps into the vacated square
pub fn push_complete(pb: &PieceBoardState, side: bool, psq: u8, vt: Piece, i: u8, d: Direction) -> bool {
    match (at(pb, i), nbr(i, d)) {
        (Some((t, g)), Some(j)) => g == side && j == psq && at(pb, j).is_none() && strength(t) > strength(vt) && !frozen(pb, i),
        _ => false,
    }
}

/// abstract push/pull status (square index, piece type)
#[derive(Clone, Copy, PartialEq, Eq)]
pub enum Pp {
    None,
    Pull(u8, Piece),
    Push(u8, Piece),
}
/// C01: which Move(i,d) the rules allow (repetition aside)
pub fn offered_move(pb: &PieceBoardState, side: bool, step: usize, pp: Pp, i: u8, d: Direction) -> bool {
    match pp {
        Pp::Push(psq, vt) => push_complete(pb, side, psq, vt, i, d),
        Pp::Pull(psq, pt) => {
            push_start(pb, side, step, i, d) || simple_step(pb, side, i, d) || pull_complete(pb, side, psq, pt, i, d)
        }
        Pp::None => push_start(pb, side, step, i, d) || simple_step(pb, side, i, d),
    }
}
/// C01: pass offered (repetition aside) iff a step was made and no push is pending
pub fn offered_pass(step: usize, pp: Pp) -> bool {
    step >= 1 && !matches!(pp, Pp::Push(_, _))
}
/// C12: status after the offered step Move(i,d)
pub fn next_pp(pb: &PieceBoardState, side: bool, pp: Pp, i: u8, d: Direction) -> Pp {
    match (at(pb, i), nbr(i, d)) {
        (Some((t, g)), Some(j)) => {
            if g != side {
                // an enemy piece is displaced: it completes a pull iff it enters the square just vacated by a stronger friend
                let completes_pull = match pp {
                    Pp::Pull(psq, pt) => j == psq && strength(pt) > strength(t),
                    _ => false,
                };
                if completes_pull {
                    Pp::None
                } else {
                    Pp::Push(i, t)
                }
            } else {
                let completes_push = matches!(pp, Pp::Push(_, _));
                if !completes_push && t != Piece::Rabbit {
                    Pp::Pull(i, t)
                } else {
                    Pp::None
                }
            }
        }
        _ => Pp::None,
    }
}

// ------------------------------------------------------------ applying a step
pub fn after_move_at(pb: &PieceBoardState, src: u8, dst: u8, i: u8) -> Option<(Piece, bool)> {
    if i == src {
        None
    } else if i == dst {
        at(pb, src)
    } else {
        at(pb, i)
    }
}
/// C02: content of square i after the step src->dst: move, then every piece on a
/// trap without an orthogonally adjacent friend (after the move) disappears
pub fn after_step_at(pb: &PieceBoardState, src: u8, dst: u8, i: u8) -> Option<(Piece, bool)> {
    match after_move_at(pb, src, dst, i) {
        None => None,
        Some((p, g)) => {
            if is_trap(i) {
                let friend = any_dir(|d| match nbr(i, d) {
                    Some(j) => match after_move_at(pb, src, dst, j) {
                        Some((_, g2)) => g2 == g,
                        None => false,
                    },
                    None => false,
                });
                if friend {
                    Some((p, g))
                } else {
                    None
                }
            } else {
                Some((p, g))
            }
        }
    }
}
/// does the step src->dst remove the piece that is on square i after the move
pub fn captured_at(pb: &PieceBoardState, src: u8, dst: u8, i: u8) -> bool {
    after_move_at(pb, src, dst, i).is_some() && after_step_at(pb, src, dst, i).is_none()
}
pub fn captures_any(pb: &PieceBoardState, src: u8, dst: u8) -> bool {
    captured_at(pb, src, dst, TRAPS[0])
        || captured_at(pb, src, dst, TRAPS[1])
        || captured_at(pb, src, dst, TRAPS[2])
        || captured_at(pb, src, dst, TRAPS[3])
}

// ------------------------------------------------------------ result (C04)
pub fn goal_rank(gold: bool) -> u8 {
    if gold {
        8
    } else {
        1
    }
}
/// some rabbit of `gold` stands on its goal rank -- exists over the 8 files, unrolled
pub fn rabbit_on_goal(pb: &PieceBoardState, gold: bool) -> bool {
    let r = goal_rank(gold);
    let on = |f: u8| at(pb, sq_index(f, r)) == Some((Piece::Rabbit, gold));
    on(0) || on(1) || on(2) || on(3) || on(4) || on(5) || on(6) || on(7)
}
pub fn winner(gold: bool) -> Terminal {
    if gold {
        Terminal::GoldWin
    } else {
        Terminal::SilverWin
    }
}
/// official order at a turn start, `mover` = player to move (B), !mover = player who just moved (A);
/// `b_has_rabbit` / `a_has_rabbit` / `b_has_step` supplied by the caller
pub fn terminal_order(
    a_goal: bool,
    b_goal: bool,
    b_has_rabbit: bool,
    a_has_rabbit: bool,
    b_has_action: bool,
    mover: bool,
) -> Option<Terminal> {
    if a_goal {
        Some(winner(!mover))
    } else if b_goal {
        Some(winner(mover))
    } else if !b_has_rabbit {
        Some(winner(!mover))
    } else if !a_has_rabbit {
        Some(winner(mover))
    } else if !b_has_action {
        Some(winner(!mover))
    } else {
        None
    }
}

// --------------------------------------------------------------- symmetries
/// file mirror a<->h on a square index
pub fn mir_sq(i: u8) -> u8 {
    sq_index(7 - file_of(i), rank_of(i))
}
/// rank flip 1<->8 on a square index
pub fn flip_sq(i: u8) -> u8 {
    sq_index(file_of(i), 9 - rank_of(i))
}
pub fn mir_dir(d: Direction) -> Direction {
    match d {
        Direction::Left => Direction::Right,
        Direction::Right => Direction::Left,
        x => x,
    }
}
pub fn flip_dir(d: Direction) -> Direction {
    match d {
        Direction::Up => Direction::Down,
        Direction::Down => Direction::Up,
        x => x,
    }
}
/// mirror every byte (rank) of a word: bit f of each byte goes to bit 7-f.  Written as a
/// per-bit gather so that it is *defined* by mir_sq and not by a bit trick.
pub fn mir_word(w: u64) -> u64 {
    let mut r = 0u64;
    macro_rules! b { ($($i:literal)*) => { $( if bit(w, $i) { r |= 1u64 << mir_sq($i); } )* } }
    b!(0 1 2 3 4 5 6 7 8 9 10 11 12 13 14 15 16 17 18 19 20 21 22 23 24 25 26 27 28 29 30 31
       32 33 34 35 36 37 38 39 40 41 42 43 44 45 46 47 48 49 50 51 52 53 54 55 56 57 58 59 60 61 62 63);
    r
}
pub fn flip_word(w: u64) -> u64 {
    let mut r = 0u64;
    macro_rules! b { ($($i:literal)*) => { $( if bit(w, $i) { r |= 1u64 << flip_sq($i); } )* } }
    b!(0 1 2 3 4 5 6 7 8 9 10 11 12 13 14 15 16 17 18 19 20 21 22 23 24 25 26 27 28 29 30 31
       32 33 34 35 36 37 38 39 40 41 42 43 44 45 46 47 48 49 50 51 52 53 54 55 56 57 58 59 60 61 62 63);
    r
}
pub fn mir_board(pb: &PieceBoardState) -> PieceBoardState {
    PieceBoardState {
        p1_pieces: mir_word(pb.p1_pieces),
        all_pieces: mir_word(pb.all_pieces),
        elephants: mir_word(pb.elephants),
        camels: mir_word(pb.camels),
        horses: mir_word(pb.horses),
        dogs: mir_word(pb.dogs),
        cats: mir_word(pb.cats),
        rabbits: mir_word(pb.rabbits),
    }
}
/// colour swap + rank flip
pub fn swap_board(pb: &PieceBoardState) -> PieceBoardState {
    let all = flip_word(pb.all_pieces);
    PieceBoardState {
        p1_pieces: all & !flip_word(pb.p1_pieces),
        all_pieces: all,
        elephants: flip_word(pb.elephants),
        camels: flip_word(pb.camels),
        horses: flip_word(pb.horses),
        dogs: flip_word(pb.dogs),
        cats: flip_word(pb.cats),
        rabbits: flip_word(pb.rabbits),
    }
}
pub fn swap_terminal(t: Option<Terminal>) -> Option<Terminal> {
    match t {
        Some(Terminal::GoldWin) => Some(Terminal::SilverWin),
        Some(Terminal::SilverWin) => Some(Terminal::GoldWin),
        None => None,
    }
}

// ---------------------------------------------------------------- notation
pub fn piece_letter(p: Piece) -> u8 {
    match p {
        Piece::Elephant => b'e',
        Piece::Camel => b'm',
        Piece::Horse => b'h',
        Piece::Dog => b'd',
        Piece::Cat => b'c',
        Piece::Rabbit => b'r',
    }
}
pub fn dir_letter(d: Direction) -> u8 {
    match d {
        Direction::Up => b'n',
        Direction::Right => b'e',
        Direction::Down => b's',
        Direction::Left => b'w',
    }
}
pub fn file_letter(i: u8) -> u8 {
    b'a' + file_of(i)
}
pub fn rank_digit(i: u8) -> u8 {
    b'0' + rank_of(i)
}

// ----------------------------------------------------------- small helpers
pub fn sq(i: u8) -> Square {
    Square::from_index(i)
}
pub fn mv(i: u8, d: Direction) -> Action {
    Action::Move(Square::from_index(i), d)
}
/// forall over the 64 squares, unrolled: for contracts that are re-used as assumptions
pub fn all64<F: Fn(u8) -> bool>(f: F) -> bool {
    let mut ok = true;
    macro_rules! b { ($($i:literal)*) => { $( ok = ok && f($i); )* } }
    b!(0 1 2 3 4 5 6 7 8 9 10 11 12 13 14 15 16 17 18 19 20 21 22 23 24 25 26 27 28 29 30 31
       32 33 34 35 36 37 38 39 40 41 42 43 44 45 46 47 48 49 50 51 52 53 54 55 56 57 58 59 60 61 62 63);
    ok
}

// ------------------------------------------------------- contract helpers
/// prey piece on i (inside prey_mask) has an orthogonally adjacent piece inside predator_mask of strictly greater strength
pub fn threatened_spec(pb: &PieceBoardState, predator_mask: u64, prey_mask: u64, i: u8) -> bool {
    bit(prey_mask, i)
        && match at(pb, i) {
            None => false,
            Some((t, _)) => any_dir(|d| match nbr(i, d) {
                Some(j) => {
                    bit(predator_mask, j)
                        && match at(pb, j) {
                            Some((t2, _)) => strength(t2) > strength(t),
                            None => false,
                        }
                }
                None => false,
            }),
        }
}
/// C04 lines 1-2: `mover` = player to move now (B); A = !mover just moved and takes precedence
pub fn goal_spec(pb: &PieceBoardState, mover: bool) -> Option<Terminal> {
    if rabbit_on_goal(pb, !mover) {
        Some(winner(!mover))
    } else if rabbit_on_goal(pb, mover) {
        Some(winner(mover))
    } else {
        None
    }
}
/// some rabbit of `gold` exists: exists over 64 squares, unrolled
pub fn has_rabbit(pb: &PieceBoardState, gold: bool) -> bool {
    !all64(|i| at(pb, i) != Some((Piece::Rabbit, gold)))
}
/// C04 lines 3-4
pub fn elimination_spec(pb: &PieceBoardState, mover: bool) -> Option<Terminal> {
    if !has_rabbit(pb, mover) {
        Some(winner(!mover))
    } else if !has_rabbit(pb, !mover) {
        Some(winner(mover))
    } else {
        None
    }
}

impl kani::Arbitrary for Terminal {
    fn any() -> Self {
        if kani::any() {
            Terminal::GoldWin
        } else {
            Terminal::SilverWin
        }
    }
}
impl kani::Arbitrary for Piece {
    fn any() -> Self {
        let k: u8 = kani::any();
        kani::assume(k < 6);
        Piece::ALL[k as usize]
    }
}
impl kani::Arbitrary for Direction {
    fn any() -> Self {
        let k: u8 = kani::any();
        kani::assume(k < 4);
        DIRS[k as usize]
    }
}

// -------------------------------------------------------------------- setup (C09)
/// k-th home square of a side in placement order: Gold a2..h2 then a1..h1, Silver a8..h8 then a7..h7
pub fn home_square(gold: bool, k: u8) -> u8 {
    let f = k % 8;
    let r = if gold {
        if k < 8 { 2 } else { 1 }
    } else if k < 8 {
        8
    } else {
        7
    };
    sq_index(f, r)
}
/// the squares occupied after n placements (n in 0..=32), as (all, gold) sets
pub fn placed_sets(n: u8) -> (u64, u64) {
    let mut all = 0u64;
    let mut gold = 0u64;
    macro_rules! k { ($($k:literal)*) => { $(
        if $k < n { all |= 1u64 << home_square(true, $k); gold |= 1u64 << home_square(true, $k); }
        if n > 16 && $k < n - 16 { all |= 1u64 << home_square(false, $k); }
    )* } }
    k!(0 1 2 3 4 5 6 7 8 9 10 11 12 13 14 15);
    (all, gold)
}
/// setup-phase invariant after n placements
pub fn wf_place(pb: &PieceBoardState, n: u8) -> bool {
    let (all, gold) = placed_sets(n);
    n <= 32 && board_wf(pb) && pb.all_pieces == all && pb.p1_pieces == gold && material_ok(pb)
}
pub fn place_mover(n: u8) -> bool {
    n < 16
}
pub fn place_target(n: u8) -> u8 {
    if n < 16 {
        home_square(true, n)
    } else {
        home_square(false, n - 16)
    }
}

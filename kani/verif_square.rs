// verif_square.rs -- obligations about src/square.rs (child module `square::verif`, cfg(kani) only).
#![allow(dead_code)]
#![allow(unused_imports)]

use super::*;
use crate::{Direction, Piece};
use crate::vspec::*;

pub fn any_sq() -> u8 {
    let i: u8 = kani::any();
    kani::assume(i < 64);
    i
}
/// error construction of the `anyhow!` macro is cut: a path ends at the first Err(..).  Sound here because in
/// all four parsers nothing but another Err(..) follows an inner Err (the callers only test `if let Ok`).
pub fn cut_err(_args: core::fmt::Arguments<'_>) -> ::anyhow::Error {
    kani::assume(false);
    unreachable!()
}
/// a symbolic valid UTF-8 string of at most N bytes, handed to `f`
pub fn with_any_str<const N: usize, R, F: FnOnce(&str) -> R>(f: F) -> Option<R> {
    let bytes: [u8; N] = kani::any();
    let len: usize = kani::any();
    kani::assume(len <= N);
    match std::str::from_utf8(&bytes[..len]) {
        Ok(s) => Some(f(s)),
        Err(_) => None,
    }
}

// ===========================================================================
// C16 / C10 value level: the 64 squares (complete finite domain, symbolic index)
// ===========================================================================
// @obl props=C16,C10,C19 tier=quick kind=harness-contract mem=2 est=10
// @fns Square::new Square::from_index Square::from_bit_board Square::as_bit_board Square::index Square::column_char Square::row single_bit_index
// @clause forall i<64, s = from_index(i): index()==i; as_bit_board()==1<<i (no shift overflow); from_bit_board(as_bit_board(s))==s; column_char == 'a'+(i mod 8); row == 8-(i div 8); Square::new(column_char,row)==s; i == 8*(8-row)+(col-'a')
#[kani::proof]
fn c16_square_values() {
    let i = any_sq();
    let s = Square::from_index(i);
    kani::cover!(i == 63);
    assert!(s.index() == i as usize, "C16: index");
    assert!(s.as_bit_board() == 1u64 << i, "C16/C10: bit i denotes square i");
    assert!(Square::from_bit_board(s.as_bit_board()) == s, "C16: bit -> square is the inverse of square -> bit");
    assert!(s.column_char() as u32 == 'a' as u32 + file_of(i) as u32, "C16/C10: file letter is i mod 8");
    assert!(s.row() == rank_of(i), "C16/C10: rank is 8 - i div 8");
    assert!(Square::new(s.column_char(), s.row() as usize) == s, "C16: new(column_char,row) round trip");
    assert!(i as usize == 8 * (8 - s.row() as usize) + (s.column_char() as usize - 'a' as usize), "C16: index formula");
    let j = any_sq();
    assert!((Square::from_index(j) == s) == (i == j), "C16: squares are equal exactly when their indices are");
}

// ===========================================================================
// C16 string level: Square::from_str over ALL valid UTF-8 strings of at most 4 bytes (BOUNDED)
// ===========================================================================
// @obl props=C16 tier=quick kind=harness-contract mem=8 est=240 timeout=1800
// @bounded all valid UTF-8 strings of <= 4 bytes (covers every string of <= 2 characters that is ASCII or has one 2/3-byte character, and all 1-character strings); longer strings are rejected by the length test right after chars().collect()
// @fns Square::from_str
// @clause for every such string s: parse::<Square>() does not panic (no arithmetic overflow, no out-of-bounds); Ok(sq) only if s is exactly the printed form of sq: two ASCII bytes, file letter 'a'..'h' of sq's file and digit '1'..'8' of sq's rank; and every printed form parses to its square
#[kani::proof]
#[kani::unwind(7)]
#[kani::stub(::anyhow::private::format_err, cut_err)]
fn c16_square_from_str() {
    let bytes: [u8; 4] = kani::any();
    let len: usize = kani::any();
    kani::assume(len <= 4);
    if let Ok(s) = std::str::from_utf8(&bytes[..len]) {
        kani::cover!(len == 2 && bytes[0] == b'c' && bytes[1] == b'3');
        kani::cover!(len == 3);
        if let Ok(sq) = s.parse::<Square>() {
            let i = sq.index() as u8;
            assert!(i < 64, "C16: parsed square is on the board");
            assert!(len == 2 && bytes[0] == file_letter(i) && bytes[1] == rank_digit(i), "C16: parsing succeeds only for the printed form of the result");
        }
    }
}
// @obl props=C16 tier=quick kind=harness-contract mem=4 est=60
// @fns Square::from_str
// @clause forall i<64: the printed form (file letter, rank digit) parses back to Square i
#[kani::proof]
#[kani::unwind(7)]
#[kani::stub(::anyhow::private::format_err, cut_err)]
fn c16_square_print_parse() {
    let i = any_sq();
    let b = [file_letter(i), rank_digit(i)];
    let s = std::str::from_utf8(&b).unwrap();
    kani::cover!(i == 0);
    match s.parse::<Square>() {
        Ok(sq) => assert!(sq.index() == i as usize, "C16: printed form parses back to the same square"),
        Err(_) => assert!(false, "C16: printed form of a square must parse"),
    }
}

// ===========================================================================
// C16: the real Display impls of the small types (the printed form itself, not the byte spec)
// ===========================================================================
fn disp_dir(d: Direction) {
    let s = d.to_string();
    assert!(s.as_bytes().len() == 1 && s.as_bytes()[0] == dir_letter(d), "C16: a direction prints as its letter n/e/s/w");
}
fn disp_piece(p: Piece) {
    let s = p.to_string();
    assert!(s.as_bytes().len() == 1 && s.as_bytes()[0] == piece_letter(p), "C16: a piece prints as its lower-case letter");
}
// @obl props=C16 tier=quick kind=harness-contract mem=4 est=60
// @fns Square::fmt Direction::fmt Piece::fmt
// @clause the real Display impls: every square prints as file letter + rank digit (all 64, symbolic index); the 4 directions and 6 pieces print as their letters (enumerated concretely) -- i.e. exactly the byte spec the parse obligations use.  Display for Action (format! of the two parts, then a padded String write) is out of reach (900 s timeout even on concrete values): A5
#[kani::proof]
#[kani::unwind(8)]
fn c16_display_small() {
    let i = any_sq();
    kani::cover!(i == 17);
    let s = Square::from_index(i).to_string();
    assert!(s.as_bytes().len() == 2 && s.as_bytes()[0] == file_letter(i) && s.as_bytes()[1] == rank_digit(i), "C16: a square prints as file letter and rank digit");
    disp_dir(Direction::Up);
    disp_dir(Direction::Right);
    disp_dir(Direction::Down);
    disp_dir(Direction::Left);
    disp_piece(Piece::Elephant);
    disp_piece(Piece::Camel);
    disp_piece(Piece::Horse);
    disp_piece(Piece::Dog);
    disp_piece(Piece::Cat);
    disp_piece(Piece::Rabbit);
}

// verif_zobrist.rs -- obligations about src/zobrist.rs (child module `zobrist::verif`, cfg(kani) only).
#![allow(dead_code)]
#![allow(unused_imports)]

use super::*;
use crate::vspec::*;

/// a Zobrist with an arbitrary raw value (the field is private to zobrist.rs)
pub fn zob(x: u64) -> Zobrist {
    Zobrist { hash: x }
}
pub fn raw(z: &Zobrist) -> u64 {
    z.hash
}
/// the real table lookup (private to zobrist.rs), for obligations in other modules
pub fn pv(i: u8, p: Piece, gold: bool) -> u64 {
    piece_value(Square::from_index(i), p, gold)
}

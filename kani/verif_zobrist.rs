// verif_zobrist.rs -- obligations about src/zobrist.rs (child module `zobrist::verif`, cfg(kani) only).
#![allow(dead_code)]
#![allow(unused_imports)]

use super::*;
use crate::Direction;
use crate::vspec::*;

/// a Zobrist with an arbitrary raw value (the field is private to zobrist.rs)
pub fn zob(x: u64) -> Zobrist {
    Zobrist { hash: x }
}
pub fn raw(z: &Zobrist) -> u64 {
    z.hash
}
/// the real table lookup (private to zobrist.rs), for obligations in other modules
pub fn pv(i: u8, p: Piece, gold: bool) -> u64 {
    piece_value(Square::from_index(i), p, gold)
}

/// value the push/pull status contributes to the transposition hash (through the real lookup functions)
pub fn pp_value(st: PushPullState) -> u64 {
    zob(0).board_state_hash_with_push_pull_state(st)
}
fn any_sq() -> u8 {
    let i: u8 = kani::any();
    kani::assume(i < 64);
    i
}
fn any_status_valid() -> PushPullState {
    let k: u8 = kani::any();
    let s = Square::from_index(any_sq());
    let p: Piece = kani::any();
    match k {
        0 => PushPullState::None,
        1 => {
            kani::assume(p != Piece::Rabbit);
            PushPullState::PossiblePull(s, p)
        }
        _ => {
            kani::assume(p != Piece::Elephant);
            PushPullState::MustCompletePush(s, p)
        }
    }
}

// ===========================================================================
// C17: injectivity of the real lookup functions over their complete finite domains
// ===========================================================================
// @obl props=C06,C08,C11,C17 tier=quick kind=lemma mem=3 est=60
// @fns piece_value
// @clause forall (i,p,g) != (i',p',g') in 64 x 6 x 2: piece_value(i,p,g) != 0 and piece_value(i,p,g) != piece_value(i',p',g')  (so adding, removing, replacing or relocating one piece changes the hash)
#[kani::proof]
fn c17_piece_values_distinct() {
    let (i, j) = (any_sq(), any_sq());
    let (p, q): (Piece, Piece) = (kani::any(), kani::any());
    let (g, h): (bool, bool) = (kani::any(), kani::any());
    kani::cover!(i != j && p == q && g == h);
    let a = pv(i, p, g);
    let b = pv(j, q, h);
    assert!(a != 0, "C17: no piece/square value is zero");
    assert!((i == j && p == q && g == h) || a != b, "C17: piece/square values are pairwise distinct");
}
// @obl props=C17,C08,C12,C19 tier=quick kind=lemma mem=3 est=60
// @fns push_piece_value pull_piece_value Zobrist::board_state_hash_with_push_pull_state
// @clause forall valid statuses s != s' among the 641 (None, 5x64 pushes, 5x64 pulls): pp_value(s) != pp_value(s'); pp_value(None) == 0; the lookups do not panic for pushed non-elephants / pulling non-rabbits
#[kani::proof]
fn c17_status_values_distinct() {
    let s = any_status_valid();
    let t = any_status_valid();
    kani::cover!(matches!(s, PushPullState::PossiblePull(_, _)) && matches!(t, PushPullState::MustCompletePush(_, _)));
    assert!(pp_value(PushPullState::None) == 0);
    assert!(s == t || pp_value(s) != pp_value(t), "C17: push/pull status values are pairwise distinct");
}
// @obl props=C06,C08,C11,C17 tier=quick kind=lemma mem=2 est=5
// @fns step_value
// @clause PLAYER_TO_MOVE != 0; STEP_VALUES pairwise distinct; step_value(a,b) == STEP[a]^STEP[b] != 0 for a != b
#[kani::proof]
fn c17_side_and_step_values() {
    let a: usize = kani::any();
    let b: usize = kani::any();
    kani::assume(a < 4 && b < 4);
    kani::cover!(a != b);
    assert!(PLAYER_TO_MOVE != 0, "C17: side-to-move value is non-zero");
    assert!(a == b || STEP_VALUES[a] != STEP_VALUES[b], "C17: step values are pairwise distinct");
    assert!(step_value(a, b) == STEP_VALUES[a] ^ STEP_VALUES[b]);
}

// ===========================================================================
// C08: the incremental updates, as XOR algebra over the table values
// ===========================================================================
// @obl props=C05,C06,C08,C09,C11,C19 tier=quick kind=harness-contract mem=3 est=20
// @fns Zobrist::initial Zobrist::pass Zobrist::exclude_step Zobrist::place_piece Zobrist::board_state_hash piece_value
// @clause forall h, step<4, (sq,p,g), flags: initial()==INITIAL; pass(step)==h^PLAYER_TO_MOVE^STEP[0]^STEP[step]; exclude_step(step)==h^STEP[0]^STEP[step]; place_piece == h ^ piece_value(sq,p,g) ^ (PTM if a switch) ^ (STEP[0] if phase switch); piece_value(sq,p,g) == SQUARE_VALUES[type index (E,M,H,D,C,R) + 6*silver][sq]
#[kani::proof]
fn c08_zobrist_algebra() {
    let h: u64 = kani::any();
    let step: usize = kani::any();
    kani::assume(step < 4);
    let z = zob(h);
    kani::cover!(true);
    assert!(raw(&Zobrist::initial()) == INITIAL);
    assert!(raw(&z.pass(step)) == h ^ PLAYER_TO_MOVE ^ STEP_VALUES[0] ^ STEP_VALUES[step], "C08: pass");
    assert!(raw(&z.exclude_step(step)) == h ^ STEP_VALUES[0] ^ STEP_VALUES[step], "C08: exclude_step");
    assert!(z.board_state_hash() == h);
    let i = any_sq();
    let p: Piece = kani::any();
    let g: bool = kani::any();
    let (sw_players, sw_phase): (bool, bool) = (kani::any(), kani::any());
    let want = h ^ pv(i, p, g) ^ (if sw_players || sw_phase { PLAYER_TO_MOVE } else { 0 }) ^ (if sw_phase { STEP_VALUES[0] } else { 0 });
    assert!(raw(&z.place_piece(p, Square::from_index(i), g, sw_players, sw_phase)) == want, "C08: place_piece");
    let t = match p {
        Piece::Elephant => 0,
        Piece::Camel => 1,
        Piece::Horse => 2,
        Piece::Dog => 3,
        Piece::Cat => 4,
        Piece::Rabbit => 5,
    } + if g { 0 } else { 6 };
    assert!(pv(i, p, g) == SQUARE_VALUES[t][i as usize], "C08: piece_value is the table entry of (type, colour, square)");
}

// (A bounded Kani companion for piece_board_value was attempted three ways -- one changed square with symbolic boards,
//  <= 3 symbolic toggles, and four concrete capture geometries with symbolic kinds -- and is intractable every time
//  (18 min + out of memory / 15 min no answer / 30 min timeout): equality of two differently grouped XOR sums over the
//  768-entry table is a parity problem for the SAT back end.  The Verus unit `pbv` is the only obligation on this function.)

// (A bounded Kani companion for piece_board_value was attempted five ways -- one changed square with symbolic boards; <= 3
//  symbolic toggles; four concrete capture geometries with symbolic kinds; a symbolic value table with a loop-free seam;
//  288 fully concrete board pairs -- and is intractable every time (out of memory or timeout after 18-30 min): the 12 seam
//  calls with Vec iteration cost ~1.8 M symex steps, and the XOR-sum equality over the 768-entry table is a parity problem
//  for the SAT back end.  The Verus unit `pbv` is the only obligation on this function.)

// verif_zobrist.rs -- obligations about src/zobrist.rs (child module `zobrist::verif`, cfg(kani) only).
#![allow(dead_code)]
#![allow(unused_imports)]

use super::*;
use crate::Direction;
use crate::vspec::*;

/// a Zobrist with an arbitrary raw value (the field is private to zobrist.rs)
pub fn zob(x: u64) -> Zobrist {
    Zobrist { hash: x }
}
pub fn raw(z: &Zobrist) -> u64 {
    z.hash
}
/// the real table lookup (private to zobrist.rs), for obligations in other modules
pub fn pv(i: u8, p: Piece, gold: bool) -> u64 {
    piece_value(Square::from_index(i), p, gold)
}

/// value the push/pull status contributes to the transposition hash (through the real lookup functions)
pub fn pp_value(st: PushPullState) -> u64 {
    zob(0).board_state_hash_with_push_pull_state(st)
}
fn any_sq() -> u8 {
    let i: u8 = kani::any();
    kani::assume(i < 64);
    i
}
fn any_status_valid() -> PushPullState {
    let k: u8 = kani::any();
    let s = Square::from_index(any_sq());
    let p: Piece = kani::any();
    match k {
        0 => PushPullState::None,
        1 => {
            kani::assume(p != Piece::Rabbit);
            PushPullState::PossiblePull(s, p)
        }
        _ => {
            kani::assume(p != Piece::Elephant);
            PushPullState::MustCompletePush(s, p)
        }
    }
}

// ===========================================================================
// C17: injectivity of the real lookup functions over their complete finite domains
// ===========================================================================
// @obl props=C06,C08,C11,C17 tier=quick kind=lemma mem=3 est=60
// @fns piece_value
// @clause forall (i,p,g) != (i',p',g') in 64 x 6 x 2: piece_value(i,p,g) != 0 and piece_value(i,p,g) != piece_value(i',p',g')  (so adding, removing, replacing or relocating one piece changes the hash)
#[kani::proof]
fn c17_piece_values_distinct() {
    let (i, j) = (any_sq(), any_sq());
    let (p, q): (Piece, Piece) = (kani::any(), kani::any());
    let (g, h): (bool, bool) = (kani::any(), kani::any());
    kani::cover!(i != j && p == q && g == h);
    let a = pv(i, p, g);
    let b = pv(j, q, h);
    assert!(a != 0, "C17: no piece/square value is zero");
    assert!((i == j && p == q && g == h) || a != b, "C17: piece/square values are pairwise distinct");
}
// @obl props=C17,C08,C12,C19 tier=quick kind=lemma mem=3 est=60
// @fns push_piece_value pull_piece_value Zobrist::board_state_hash_with_push_pull_state
// @clause forall valid statuses s != s' among the 641 (None, 5x64 pushes, 5x64 pulls): pp_value(s) != pp_value(s'); pp_value(None) == 0; the lookups do not panic for pushed non-elephants / pulling non-rabbits
#[kani::proof]
fn c17_status_values_distinct() {
    let s = any_status_valid();
    let t = any_status_valid();
    kani::cover!(matches!(s, PushPullState::PossiblePull(_, _)) && matches!(t, PushPullState::MustCompletePush(_, _)));
    assert!(pp_value(PushPullState::None) == 0);
    assert!(s == t || pp_value(s) != pp_value(t), "C17: push/pull status values are pairwise distinct");
}
// @obl props=C06,C08,C11,C17 tier=quick kind=lemma mem=2 est=5
// @fns step_value
// @clause PLAYER_TO_MOVE != 0; STEP_VALUES pairwise distinct; step_value(a,b) == STEP[a]^STEP[b] != 0 for a != b
#[kani::proof]
fn c17_side_and_step_values() {
    let a: usize = kani::any();
    let b: usize = kani::any();
    kani::assume(a < 4 && b < 4);
    kani::cover!(a != b);
    assert!(PLAYER_TO_MOVE != 0, "C17: side-to-move value is non-zero");
    assert!(a == b || STEP_VALUES[a] != STEP_VALUES[b], "C17: step values are pairwise distinct");
    assert!(step_value(a, b) == STEP_VALUES[a] ^ STEP_VALUES[b]);
}

// ===========================================================================
// C08: the incremental updates, as XOR algebra over the table values
// ===========================================================================
// @obl props=C05,C06,C08,C09,C11,C19 tier=quick kind=harness-contract mem=3 est=20
// @fns Zobrist::initial Zobrist::pass Zobrist::exclude_step Zobrist::place_piece Zobrist::board_state_hash piece_value
// @clause forall h, step<4, (sq,p,g), flags: initial()==INITIAL; pass(step)==h^PLAYER_TO_MOVE^STEP[0]^STEP[step]; exclude_step(step)==h^STEP[0]^STEP[step]; place_piece == h ^ piece_value(sq,p,g) ^ (PTM if a switch) ^ (STEP[0] if phase switch); piece_value(sq,p,g) == SQUARE_VALUES[type index (E,M,H,D,C,R) + 6*silver][sq]
#[kani::proof]
fn c08_zobrist_algebra() {
    let h: u64 = kani::any();
    let step: usize = kani::any();
    kani::assume(step < 4);
    let z = zob(h);
    kani::cover!(true);
    assert!(raw(&Zobrist::initial()) == INITIAL);
    assert!(raw(&z.pass(step)) == h ^ PLAYER_TO_MOVE ^ STEP_VALUES[0] ^ STEP_VALUES[step], "C08: pass");
    assert!(raw(&z.exclude_step(step)) == h ^ STEP_VALUES[0] ^ STEP_VALUES[step], "C08: exclude_step");
    assert!(z.board_state_hash() == h);
    let i = any_sq();
    let p: Piece = kani::any();
    let g: bool = kani::any();
    let (sw_players, sw_phase): (bool, bool) = (kani::any(), kani::any());
    let want = h ^ pv(i, p, g) ^ (if sw_players || sw_phase { PLAYER_TO_MOVE } else { 0 }) ^ (if sw_phase { STEP_VALUES[0] } else { 0 });
    assert!(raw(&z.place_piece(p, Square::from_index(i), g, sw_players, sw_phase)) == want, "C08: place_piece");
    let t = match p {
        Piece::Elephant => 0,
        Piece::Camel => 1,
        Piece::Horse => 2,
        Piece::Dog => 3,
        Piece::Cat => 4,
        Piece::Rabbit => 5,
    } + if g { 0 } else { 6 };
    assert!(pv(i, p, g) == SQUARE_VALUES[t][i as usize], "C08: piece_value is the table entry of (type, colour, square)");
}

// (A bounded Kani companion for piece_board_value was attempted three ways -- one changed square with symbolic boards,
//  <= 3 symbolic toggles, and four concrete capture geometries with symbolic kinds -- and is intractable every time
//  (18 min + out of memory / 15 min no answer / 30 min timeout): equality of two differently grouped XOR sums over the
//  768-entry table is a parity problem for the SAT back end.  The Verus unit `pbv` is the only obligation on this function.)

// (A bounded Kani companion for piece_board_value was attempted five ways -- one changed square with symbolic boards; <= 3
//  symbolic toggles; four concrete capture geometries with symbolic kinds; a symbolic value table with a loop-free seam;
//  288 fully concrete board pairs -- and is intractable every time (out of memory or timeout after 18-30 min): the 12 seam
//  calls with Vec iteration cost ~1.8 M symex steps, and the XOR-sum equality over the 768-entry table is a parity problem
//  for the SAT back end.  The Verus unit `pbv` is the only unbounded obligation on this function; the concrete smoke
//  companion at the end of this file is the only Kani obligation that is tractable.)

// ===========================================================================
// A small CONCRETE companion of verus_pbv (see the note above: nothing symbolic is tractable for this function).
// Eight concrete capture scenarios; CBMC only propagates constants.  It keeps a semantic check with a concrete failing
// input alive when the body of piece_board_value is restructured and the Verus unit loses its anchors.
// ===========================================================================
fn board_of(i1: u8, p1: Piece, i2: u8, p2: Piece, g: bool) -> PieceBoardState {
    let w = |p: Piece| (if p1 == p { 1u64 << i1 } else { 0 }) | (if p2 == p { 1u64 << i2 } else { 0 });
    let all = (1u64 << i1) | (1u64 << i2);
    PieceBoardState {
        p1_pieces: if g { all } else { 0 },
        all_pieces: all,
        elephants: w(Piece::Elephant),
        camels: w(Piece::Camel),
        horses: w(Piece::Horse),
        dogs: w(Piece::Dog),
        cats: w(Piece::Cat),
        rabbits: w(Piece::Rabbit),
    }
}
fn capture_case(trap: u8, supporter: u8, dest: u8, pt: Piece, ps: Piece, g: bool) {
    // (pt,g) stands on `trap`, its only supporter (ps,g) steps from `supporter` to `dest`: the trap piece is captured
    let old = board_of(trap, pt, supporter, ps, g);
    let mut new = board_of(trap, pt, dest, ps, g);
    let m = !(1u64 << trap);
    new.p1_pieces &= m;
    new.all_pieces &= m;
    new.elephants &= m;
    new.camels &= m;
    new.horses &= m;
    new.dogs &= m;
    new.cats &= m;
    new.rabbits &= m;
    let want = pv(supporter, ps, g) ^ pv(dest, ps, g) ^ pv(trap, pt, g);
    assert!(piece_board_value(&old, &new) == want, "C08: board delta of a capturing step == XOR of the three changed (square, kind) entries");
    assert!(piece_board_value(&new, &old) == want, "C08: ... in either argument order");
}
// @obl props=C08,C05 tier=quick kind=harness-contract mem=6 est=120 timeout=1800
// @bounded eight concrete board pairs (a capture on each trap; captured piece and departing supporter of equal and of different kinds; both colours)
// @fns piece_board_value Zobrist::from_piece_board map_bit_board_to_squares PieceBoardState::bits_for_piece piece_value
// @clause on these pairs piece_board_value(before, after) == value(supporter square) ^ value(destination) ^ value(trap) (real loops, real seam, real table); on one pair from_piece_board(after) == from_piece_board(before) ^ delta
#[kani::proof]
#[kani::unwind(8)]
fn c08_pbv_concrete_smoke() {
    kani::cover!(true);
    capture_case(18, 17, 9, Piece::Horse, Piece::Horse, true); // c6: gold horse loses its horse supporter (b6 -> b7)
    capture_case(21, 22, 23, Piece::Dog, Piece::Dog, false); // f6: silver dog, dog supporter (g6 -> h6)
    capture_case(42, 50, 58, Piece::Cat, Piece::Elephant, false); // c3: silver cat, elephant supporter (c2 -> c1)
    capture_case(45, 44, 36, Piece::Rabbit, Piece::Camel, false); // f3: silver rabbit, camel supporter (e3 -> e4)
    capture_case(42, 41, 40, Piece::Cat, Piece::Cat, true); // c3: gold cats (b3 -> a3)
    capture_case(45, 53, 61, Piece::Camel, Piece::Rabbit, true); // f3: gold camel, rabbit supporter (f2 -> f1)
    capture_case(18, 10, 2, Piece::Rabbit, Piece::Rabbit, false); // c6: silver rabbits (c7 -> c8)
    capture_case(21, 13, 5, Piece::Elephant, Piece::Dog, true); // f6: gold elephant, dog supporter (f7 -> f8)
    // the from-scratch hash and the incremental delta agree on a concrete pair (same side, same step)
    let old = board_of(42, Piece::Horse, 41, Piece::Horse, false);
    let new = board_of(40, Piece::Horse, 40, Piece::Horse, false); // the supporter moved b3 -> a3, the c3 horse was captured
    let d = piece_board_value(&old, &new);
    assert!(raw(&Zobrist::from_piece_board(&new, true, 2)) == raw(&Zobrist::from_piece_board(&old, true, 2)) ^ d, "C08: from-scratch hashes of two boards differ by the incremental board delta");
}

// verif_piece.rs -- obligations about src/piece.rs (child module `piece::verif`, cfg(kani) only).
#![allow(dead_code)]
#![allow(unused_imports)]

use super::*;
use crate::square::verif::cut_err;
use crate::vspec::*;

// @obl props=C16 tier=quick kind=harness-contract mem=6 est=120 timeout=1500
// @bounded all valid UTF-8 strings of <= 4 bytes (every 1-character string; longer strings are rejected by the length test)
// @fns Piece::from_str
// @clause for every such string: no panic; Ok(p) only if the string is one ASCII byte equal to p's printed letter (e m h d c r) or its upper case; and both letters of every piece parse to it
#[kani::proof]
#[kani::unwind(7)]
#[kani::stub(::anyhow::private::format_err, cut_err)]
fn c16_piece_from_str() {
    let bytes: [u8; 4] = kani::any();
    let len: usize = kani::any();
    kani::assume(len <= 4);
    if let Ok(s) = std::str::from_utf8(&bytes[..len]) {
        kani::cover!(len == 1 && bytes[0] == b'M');
        kani::cover!(len == 2);
        if let Ok(p) = s.parse::<Piece>() {
            assert!(len == 1 && (bytes[0] == piece_letter(p) || bytes[0] == piece_letter(p).to_ascii_uppercase()), "C16: a piece parses only from its own letter (either case)");
        }
    }
    let p: Piece = kani::any();
    let up: bool = kani::any();
    let b = [if up { piece_letter(p).to_ascii_uppercase() } else { piece_letter(p) }];
    match std::str::from_utf8(&b).unwrap().parse::<Piece>() {
        Ok(q) => assert!(q == p, "C16: printed form of a piece parses back to it"),
        Err(_) => assert!(false, "C16: printed form of a piece must parse"),
    }
}

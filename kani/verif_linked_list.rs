// verif_linked_list.rs -- the history leaf (child module `linked_list::verif`, cfg(kani) only).
#![allow(dead_code)]
#![allow(unused_imports)]

use super::*;

/// a list of symbolic length 0..=4 built with the real API; returns the elements in insertion order
pub fn any_list4() -> (List<u64>, [u64; 4], usize) {
    let n: usize = kani::any();
    kani::assume(n <= 4);
    let e: [u64; 4] = [kani::any(), kani::any(), kani::any(), kani::any()];
    let mut l: List<u64> = List::new();
    let mut k = 0;
    while k < 4 {
        if k < n {
            l = l.append(e[k]);
        }
        k += 1;
    }
    (l, e, n)
}

// @obl props=C05,C06,C18,C19 tier=quick kind=harness-contract mem=4 est=60
// @bounded lists of length <= 4. Since the Verus unit `list` (verus_list) proves new/append/head/tail/len/is_empty/clone against the Seq view for lists of EVERY length, this obligation is the bounded stand-in only for List::iter / Iter::next (a closure that captures `&mut self.next`: outside Verus) and the concrete-input companion of verus_list; above this leaf the history is an uninterpreted oracle, so no other obligation depends on the length
// @fns List::new List::append List::head List::tail List::len List::is_empty List::iter List::clone Iter::next
// @clause for lists of length n <= 4 built by append: len == n, is_empty <=> n == 0, head == last appended, tail == the list before the last append (same elements, same len), iteration yields the elements newest-first exactly once each, clone is observationally equal, the original list is unchanged by append (persistence)
#[kani::proof]
#[kani::unwind(7)]
fn c05_list_leaf() {
    let (l, e, n) = any_list4();
    kani::cover!(n == 4);
    kani::cover!(n == 0);
    assert!(l.len() == n && l.is_empty() == (n == 0), "C05: list length");
    assert!(l.head().copied() == if n > 0 { Some(e[n - 1]) } else { None }, "C05: head is the newest entry");
    // iteration: newest first, each element once
    let mut k = 0;
    let mut it = l.iter();
    while k < 5 {
        let x = it.next();
        if k < n {
            assert!(x.copied() == Some(e[n - 1 - k]), "C05: iteration yields the entries newest-first");
        } else {
            assert!(x.is_none(), "C05: iteration ends after len entries");
        }
        k += 1;
    }
    // tail / persistence / clone
    let t = l.tail();
    assert!(t.len() == if n > 0 { n - 1 } else { 0 }, "C05: tail drops exactly the newest entry");
    assert!(t.head().copied() == if n > 1 { Some(e[n - 2]) } else { None });
    let x: u64 = kani::any();
    let l2 = l.append(x);
    assert!(l2.len() == n + 1 && l2.head().copied() == Some(x), "C05: append adds one entry at the head");
    assert!(l.len() == n && l.head().copied() == if n > 0 { Some(e[n - 1]) } else { None }, "C05/C18: append does not modify the list it was called on");
    let c = l.clone();
    assert!(c.len() == n && c.head().copied() == l.head().copied(), "C05: clone is observationally equal");
}

// @obl props=C05,C06,C19 tier=quick kind=harness-contract mem=2 est=20
// @fns List::iter Iter::next
// @clause STEP CONTRACT of the history iterator, loop-free and therefore for lists of every length: for an iterator standing on ANY node (element, cached length and presence of a successor symbolic), next() returns a reference to exactly that node's element and leaves the iterator standing on exactly that node's successor (None if there is none); an exhausted iterator returns None and stays exhausted; List::iter() stands on the head node (None for the empty list). The successor's own fields are outside next()'s footprint, so one successor node is a complete case split. With the Verus view (link_view(Some(n)) == [n.elem] ++ link_view(n.next)) this is the induction step of "iteration yields the view, newest first, each entry once"; the induction itself and filter/count (A1) are not machine-checked, which is why c05_twice_leaf stays labelled bounded.
#[kani::proof]
fn c05_iter_step() {
    let (e0, e1): (u64, u64) = (kani::any(), kani::any());
    let (len0, len1): (usize, usize) = (kani::any(), kani::any());
    let has_next: bool = kani::any();
    let n1: Arc<Node<u64>> = Arc::new(Node { elem: e1, next: None, len: len1 });
    let n0: Node<u64> = Node { elem: e0, next: if has_next { Some(n1.clone()) } else { None }, len: len0 };
    kani::cover!(has_next);
    kani::cover!(!has_next);
    // (a) live iterator
    let mut it = Iter { next: Some(&n0) };
    let x = it.next();
    assert!(match x { Some(r) => std::ptr::eq(r, &n0.elem) && *r == e0, None => false }, "C05: next() yields the element of the node the iterator stands on");
    match it.next {
        Some(p) => assert!(has_next && std::ptr::eq(p, &*n1), "C05: next() advances to exactly the successor node"),
        None => assert!(!has_next, "C05: next() ends iteration only at the last node"),
    }
    // (b) exhausted iterator
    let mut done: Iter<u64> = Iter { next: None };
    assert!(done.next().is_none() && done.next.is_none(), "C05: an exhausted iterator stays exhausted");
    // (c) iter() starts at the head
    let l = List { head: Some(n1.clone()) };
    assert!(match l.iter().next { Some(p) => std::ptr::eq(p, &*n1), None => false }, "C05: iter() stands on the head node");
    let empty: List<u64> = List { head: None };
    assert!(empty.iter().next.is_none(), "C05: iter() of the empty list is exhausted");
}

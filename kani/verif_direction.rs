// verif_direction.rs -- obligations about src/direction.rs (child module `direction::verif`, cfg(kani) only).
#![allow(dead_code)]
#![allow(unused_imports)]

use super::*;
use crate::square::verif::cut_err;
use crate::vspec::*;

// @obl props=C16 tier=quick kind=harness-contract mem=6 est=120 timeout=1500
// @bounded all valid UTF-8 strings of <= 4 bytes (every 1-character string; longer strings are rejected by the length test)
// @fns Direction::from_str
// @clause for every such string: no panic; Ok(d) only if the string is the one ASCII byte n/e/s/w printed for d; every printed form parses back
#[kani::proof]
#[kani::unwind(7)]
#[kani::stub(::anyhow::private::format_err, cut_err)]
fn c16_direction_from_str() {
    let bytes: [u8; 4] = kani::any();
    let len: usize = kani::any();
    kani::assume(len <= 4);
    if let Ok(s) = std::str::from_utf8(&bytes[..len]) {
        kani::cover!(len == 1 && bytes[0] == b'w');
        kani::cover!(len == 3);
        if let Ok(d) = s.parse::<Direction>() {
            assert!(len == 1 && bytes[0] == dir_letter(d), "C16: a direction parses only from its own letter");
        }
    }
    let d: Direction = kani::any();
    let b = [dir_letter(d)];
    match std::str::from_utf8(&b).unwrap().parse::<Direction>() {
        Ok(e) => assert!(e == d, "C16: printed form of a direction parses back to it"),
        Err(_) => assert!(false, "C16: printed form of a direction must parse"),
    }
}

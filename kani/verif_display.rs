// verif_display.rs -- obligations about src/display.rs (child module `display::verif`, cfg(kani) only).
#![allow(dead_code)]
#![allow(unused_imports)]

use super::*;
use crate::vspec::*;

// @obl props=C10 tier=quick kind=harness-contract mem=6 est=120 timeout=1500
// @fns convert_piece_to_letter convert_char_to_piece is_p1_piece
// @clause the printed cell of a piece: convert_piece_to_letter(p,g) is the one-byte string of p's letter (upper case for Gold, lower case for Silver), convert_char_to_piece of that letter gives back (p,g); is_p1_piece(bit i) <=> owner of square i is Gold.  The line/column layout produced through fmt::Formatter is NOT decided (A5).
#[kani::proof]
#[kani::unwind(6)]
fn c10_display_cells() {
    // all 12 (type, colour) pairs, concretely (the letter conversions go through Unicode case tables)
    cell(Piece::Elephant, true);
    cell(Piece::Camel, true);
    cell(Piece::Horse, true);
    cell(Piece::Dog, true);
    cell(Piece::Cat, true);
    cell(Piece::Rabbit, true);
    cell(Piece::Elephant, false);
    cell(Piece::Camel, false);
    cell(Piece::Horse, false);
    cell(Piece::Dog, false);
    cell(Piece::Cat, false);
    cell(Piece::Rabbit, false);
    kani::cover!(true);
    assert!(convert_char_to_piece(' ').is_none() && convert_char_to_piece('x').is_none(), "C10: blanks and trap marks are not pieces");
}
fn cell(p: Piece, g: bool) {
    let s = convert_piece_to_letter(&p, g);
    let want = if g { piece_letter(p).to_ascii_uppercase() } else { piece_letter(p) };
    assert!(s.as_bytes().len() == 1 && s.as_bytes()[0] == want, "C10: printed letter of a piece");
    assert!(convert_char_to_piece(want as char) == Some((p, g)), "C10/C15: the diagram letter reads back as the same piece and owner");
}

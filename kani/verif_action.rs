// verif_action.rs -- obligations about src/action.rs (child module `action::verif`, cfg(kani) only).
#![allow(dead_code)]
#![allow(unused_imports)]

use super::*;
use crate::vspec::*;

fn any_sq() -> u8 {
    let i: u8 = kani::any();
    kani::assume(i < 64);
    i
}

// @obl props=C01,C16,C19 tier=quick kind=harness-contract mem=4 est=60
// @bounded words with at most 3 set bits (the unbounded statement is the Verus obligation verus_seam; this one exists to produce a concrete input when that proof fails, and to exercise A1 on the real loop)
// @fns map_bit_board_to_squares
// @clause for every word with <= 3 set bits: the real loop returns the set bits in strictly ascending order, each exactly once, nothing else
#[kani::proof]
#[kani::unwind(5)]
fn seam_small() {
    let (a, b, c) = (any_sq(), any_sq(), any_sq());
    let w = (1u64 << a) | (1u64 << b) | (1u64 << c);
    let i = any_sq();
    kani::cover!(a != b && b != c && a != c);
    let v = map_bit_board_to_squares(w);
    assert!(v.len() as u32 == w.count_ones(), "C16: one square per set bit");
    let mut found = false;
    let mut k = 0;
    while k < 3 {
        if k < v.len() {
            let s = v[k].index() as u8;
            assert!(s < 64 && bit(w, s), "C16: every listed square is a set bit");
            if k > 0 {
                assert!((v[k - 1].index() as u8) < s, "C16: squares are listed in strictly ascending order");
            }
            if s == i {
                found = true;
            }
        }
        k += 1;
    }
    assert!(found == bit(w, i), "C16: every set bit is listed");
}

// verif_action.rs -- obligations about src/action.rs (child module `action::verif`, cfg(kani) only).
#![allow(dead_code)]
#![allow(unused_imports)]

use super::*;
use crate::vspec::*;

fn any_sq() -> u8 {
    let i: u8 = kani::any();
    kani::assume(i < 64);
    i
}

// @obl props=C01,C16,C19 tier=quick kind=harness-contract mem=4 est=60
// @bounded words with at most 3 set bits (the unbounded statement is the Verus obligation verus_seam; this one exists to produce a concrete input when that proof fails, and to exercise A1 on the real loop)
// @fns map_bit_board_to_squares
// @clause for every word with <= 3 set bits: the real loop returns the set bits in strictly ascending order, each exactly once, nothing else
#[kani::proof]
#[kani::unwind(5)]
fn seam_small() {
    let (a, b, c) = (any_sq(), any_sq(), any_sq());
    let w = (1u64 << a) | (1u64 << b) | (1u64 << c);
    let i = any_sq();
    kani::cover!(a != b && b != c && a != c);
    let v = map_bit_board_to_squares(w);
    assert!(v.len() as u32 == w.count_ones(), "C16: one square per set bit");
    let mut found = false;
    let mut k = 0;
    while k < 3 {
        if k < v.len() {
            let s = v[k].index() as u8;
            assert!(s < 64 && bit(w, s), "C16: every listed square is a set bit");
            if k > 0 {
                assert!((v[k - 1].index() as u8) < s, "C16: squares are listed in strictly ascending order");
            }
            if s == i {
                found = true;
            }
        }
        k += 1;
    }
    assert!(found == bit(w, i), "C16: every set bit is listed");
}

use crate::square::verif::cut_err;

// The inner parsers as seen by Action::from_str: Ok(v) iff the text is the printed form of v (piece letters of either
// case), otherwise an error (construction cut).  These are the contracts discharged for the real inner parsers by
// c16_square_from_str / c16_square_print_parse, c16_piece_from_str, c16_direction_from_str.
pub fn sq_spec_parse(s: &str) -> Result<Square, ::anyhow::Error> {
    let b = s.as_bytes();
    if b.len() == 2 && b[0] >= b'a' && b[0] <= b'h' && b[1] >= b'1' && b[1] <= b'8' {
        Ok(Square::from_index((b'8' - b[1]) * 8 + (b[0] - b'a')))
    } else {
        kani::assume(false);
        unreachable!()
    }
}
pub fn dir_spec_parse(s: &str) -> Result<Direction, ::anyhow::Error> {
    let b = s.as_bytes();
    if b.len() == 1 && b[0] == b'n' {
        Ok(Direction::Up)
    } else if b.len() == 1 && b[0] == b'e' {
        Ok(Direction::Right)
    } else if b.len() == 1 && b[0] == b's' {
        Ok(Direction::Down)
    } else if b.len() == 1 && b[0] == b'w' {
        Ok(Direction::Left)
    } else {
        kani::assume(false);
        unreachable!()
    }
}
pub fn piece_spec_parse(s: &str) -> Result<Piece, ::anyhow::Error> {
    let b = s.as_bytes();
    if b.len() != 1 {
        kani::assume(false);
    }
    match b[0].to_ascii_lowercase() {
        b'e' => Ok(Piece::Elephant),
        b'm' => Ok(Piece::Camel),
        b'h' => Ok(Piece::Horse),
        b'd' => Ok(Piece::Dog),
        b'c' => Ok(Piece::Cat),
        b'r' => Ok(Piece::Rabbit),
        _ => {
            kani::assume(false);
            unreachable!()
        }
    }
}

// @obl props=C16 tier=quick kind=harness-contract mem=10 est=300 timeout=2400
// @bounded all valid UTF-8 strings of <= 5 bytes (every string of <= 3 characters with multi-byte characters up to 5 bytes in total, every printed form); strings with another character count are rejected right after chars().collect()
// @fns Action::from_str
// @clause modular: the three inner parsers are replaced by their contracts. For every such string: parse::<Action>() does not panic (no slicing inside a character, no overflow); Ok(a) only if the bytes are the printed form of a ("p"; a piece letter of either case; file letter + rank digit + direction letter)
#[kani::proof]
#[kani::unwind(8)]
#[kani::stub(::anyhow::private::format_err, cut_err)]
#[kani::stub(<crate::square::Square as std::str::FromStr>::from_str, sq_spec_parse)]
#[kani::stub(<crate::direction::Direction as std::str::FromStr>::from_str, dir_spec_parse)]
#[kani::stub(<crate::piece::Piece as std::str::FromStr>::from_str, piece_spec_parse)]
fn c16_action_from_str() {
    let bytes: [u8; 5] = kani::any();
    let len: usize = kani::any();
    kani::assume(len <= 5);
    if let Ok(s) = std::str::from_utf8(&bytes[..len]) {
        kani::cover!(len == 3 && bytes[0] == b'a' && bytes[1] == b'2' && bytes[2] == b'n');
        kani::cover!(len == 5);
        if let Ok(a) = s.parse::<Action>() {
            match a {
                Action::Pass => assert!(len == 1 && bytes[0] == b'p', "C16: Pass parses only from \"p\""),
                Action::Place(p) => assert!(len == 1 && (bytes[0] == piece_letter(p) || bytes[0] == piece_letter(p).to_ascii_uppercase()), "C16: a placement parses only from its piece letter"),
                Action::Move(sq, d) => {
                    let i = sq.index() as u8;
                    assert!(i < 64 && len == 3 && bytes[0] == file_letter(i) && bytes[1] == rank_digit(i) && bytes[2] == dir_letter(d), "C16: a step parses only from its printed form");
                }
            }
        }
    }
}
// @obl props=C16 tier=quick kind=harness-contract mem=8 est=200 timeout=1800
// @fns Action::from_str
// @clause modular: all 263 action values (64x4 steps, 6 placements, pass): the printed form parses back to the same value
#[kani::proof]
#[kani::unwind(8)]
#[kani::stub(::anyhow::private::format_err, cut_err)]
#[kani::stub(<crate::square::Square as std::str::FromStr>::from_str, sq_spec_parse)]
#[kani::stub(<crate::direction::Direction as std::str::FromStr>::from_str, dir_spec_parse)]
#[kani::stub(<crate::piece::Piece as std::str::FromStr>::from_str, piece_spec_parse)]
fn c16_action_print_parse() {
    let k: u8 = kani::any();
    kani::assume(k < 3);
    let i = any_sq();
    let d: Direction = kani::any();
    let p: Piece = kani::any();
    let (a, b, n): (Action, [u8; 3], usize) = match k {
        0 => (Action::Pass, [b'p', 0, 0], 1),
        1 => (Action::Place(p), [piece_letter(p), 0, 0], 1),
        _ => (mv(i, d), [file_letter(i), rank_digit(i), dir_letter(d)], 3),
    };
    kani::cover!(k == 2);
    match std::str::from_utf8(&b[..n]).unwrap().parse::<Action>() {
        Ok(x) => assert!(x == a, "C16: printed form of an action parses back to it"),
        Err(_) => assert!(false, "C16: printed form of an action must parse"),
    }
}

// @obl props=C16 tier=thorough kind=harness-contract mem=24 est=1500 timeout=5400
// @bounded all valid UTF-8 strings of <= 7 bytes (every string of <= 3 characters whose characters need at most 7 bytes in total)
// @fns Action::from_str
// @clause as c16_action_from_str, for longer strings
#[kani::proof]
#[kani::unwind(10)]
#[kani::stub(::anyhow::private::format_err, cut_err)]
#[kani::stub(<crate::square::Square as std::str::FromStr>::from_str, sq_spec_parse)]
#[kani::stub(<crate::direction::Direction as std::str::FromStr>::from_str, dir_spec_parse)]
#[kani::stub(<crate::piece::Piece as std::str::FromStr>::from_str, piece_spec_parse)]
fn c16_action_from_str_7() {
    let bytes: [u8; 7] = kani::any();
    let len: usize = kani::any();
    kani::assume(len <= 7);
    if let Ok(s) = std::str::from_utf8(&bytes[..len]) {
        kani::cover!(len == 7);
        if let Ok(a) = s.parse::<Action>() {
            match a {
                Action::Pass => assert!(len == 1 && bytes[0] == b'p', "C16: Pass parses only from \"p\""),
                Action::Place(p) => assert!(len == 1 && (bytes[0] == piece_letter(p) || bytes[0] == piece_letter(p).to_ascii_uppercase()), "C16: a placement parses only from its piece letter"),
                Action::Move(sq, d) => {
                    let i = sq.index() as u8;
                    assert!(i < 64 && len == 3 && bytes[0] == file_letter(i) && bytes[1] == rank_digit(i) && bytes[2] == dir_letter(d), "C16: a step parses only from its printed form");
                }
            }
        }
    }
}
// @obl props=C01,C16 tier=thorough kind=harness-contract mem=12 est=600 timeout=3600
// @bounded words with at most 5 set bits
// @fns map_bit_board_to_squares
// @clause as seam_small, for up to 5 set bits
#[kani::proof]
#[kani::unwind(7)]
fn seam_small_5() {
    let b = [any_sq(), any_sq(), any_sq(), any_sq(), any_sq()];
    let w = (1u64 << b[0]) | (1u64 << b[1]) | (1u64 << b[2]) | (1u64 << b[3]) | (1u64 << b[4]);
    let i = any_sq();
    kani::cover!(w.count_ones() == 5);
    let v = map_bit_board_to_squares(w);
    assert!(v.len() as u32 == w.count_ones(), "C16: one square per set bit");
    let mut found = false;
    let mut k = 0;
    while k < 5 {
        if k < v.len() {
            let s = v[k].index() as u8;
            assert!(s < 64 && bit(w, s), "C16: every listed square is a set bit");
            if k > 0 {
                assert!((v[k - 1].index() as u8) < s, "C16: squares are listed in strictly ascending order");
            }
            if s == i {
                found = true;
            }
        }
        k += 1;
    }
    assert!(found == bit(w, i), "C16: every set bit is listed");
}

// verif_engine.rs -- obligations about src/engine.rs.  Woven in as the child module
// `engine::verif` (cfg(kani) only), so it sees the private items of engine.rs and
// changes none of them.
#![allow(dead_code)]
#![allow(unused_imports)]

use super::*;
use crate::vspec::*;

// --------------------------------------------------------------- generators
pub fn any_sq() -> u8 {
    let i: u8 = kani::any();
    kani::assume(i < 64);
    i
}
pub fn any_direction() -> Direction {
    let k: u8 = kani::any();
    kani::assume(k < 4);
    DIRS[k as usize]
}
pub fn any_piece() -> Piece {
    let k: u8 = kani::any();
    kani::assume(k < 6);
    Piece::ALL[k as usize]
}
/// eight unconstrained words
pub fn any_board_raw() -> PieceBoardState {
    PieceBoardState {
        p1_pieces: kani::any(),
        all_pieces: kani::any(),
        elephants: kani::any(),
        camels: kani::any(),
        horses: kani::any(),
        dogs: kani::any(),
        cats: kani::any(),
        rabbits: kani::any(),
    }
}
pub fn any_wf_board() -> PieceBoardState {
    let pb = any_board_raw();
    kani::assume(board_wf(&pb));
    pb
}
pub fn any_legal_board() -> PieceBoardState {
    let pb = any_board_raw();
    kani::assume(legal_board(&pb));
    pb
}
/// the board after the step (through the real PieceBoard::take_action, contract c02_pb_take_action)
pub fn step_board(pb: &PieceBoardState, src: u8, d: Direction) -> PieceBoardState {
    PieceBoard(pb.clone()).take_action(&mv(src, d)).0
}
pub fn same_board(a: &PieceBoardState, b: &PieceBoardState) -> bool {
    a.p1_pieces == b.p1_pieces
        && a.all_pieces == b.all_pieces
        && a.elephants == b.elephants
        && a.camels == b.camels
        && a.horses == b.horses
        && a.dogs == b.dogs
        && a.cats == b.cats
        && a.rabbits == b.rabbits
}

/// a state without any heap: the board-level rule functions never look at the phase
pub fn lean_state(side: bool) -> GameState {
    GameState::new(side, 2, Phase::PlacePhase, PieceBoard::initial(), Zobrist::initial())
}

// ===========================================================================
// Layer 0 / 1.  Two forms of the same kind of statement:
//  * in-place Kani function contracts (contracts/engine.contracts, woven above the real fn),
//    proved with proof_for_contract, re-usable by callers through stub_verified.  Measured:
//    a woven contract makes *every* harness that calls the function pay for the contract
//    closures, so each obligation names the contracts it needs (`@uses`) and the weaver
//    builds one copy of the crate per distinct set.
//  * harness-contracts: assume pre / call the real fn / assert post, with the universally
//    quantified square as a symbolic input.  Loop-free, inputs fully symbolic: complete.
// ===========================================================================
// @obl props=C01,C02,C10,C11,C19 tier=quick kind=contract mem=2 est=10
// @uses supported_pieces
// @fns supported_pieces
// @clause ensures forall i: bit(r,i) <=> bit(x,i) && some orthogonal neighbour of i (by file/rank arithmetic, no wrap-around) is in x
#[kani::proof_for_contract(supported_pieces)]
fn k_supported_pieces() {
    kani::cover!(true);
    supported_pieces(kani::any());
}
// @obl props=C01,C19 tier=quick kind=contract mem=4 est=90
// @uses GameState::threatened_pieces
// @fns GameState::threatened_pieces influenced_squares
// @clause requires board_wf ensures forall i: bit(r,i) <=> i in prey mask, holds a piece, and a strictly stronger piece inside the predator mask is orthogonally adjacent
#[kani::proof_for_contract(GameState::threatened_pieces)]
fn k_threatened_pieces() {
    let gs = lean_state(kani::any());
    let pb = any_board_raw();
    kani::cover!(board_wf(&pb));
    gs.threatened_pieces(kani::any(), kani::any(), &pb);
}
// @obl props=C01 tier=quick kind=contract mem=2 est=10
// @uses GameState::opponent_piece_mask
// @fns GameState::opponent_piece_mask
// @clause requires board_wf ensures forall i: bit(r,i) <=> at(pb,i) is a piece of the opponent
#[kani::proof_for_contract(GameState::opponent_piece_mask)]
fn k_opponent_piece_mask() {
    let gs = lean_state(kani::any());
    let pb = any_board_raw();
    kani::cover!(board_wf(&pb));
    gs.opponent_piece_mask(&pb);
}
// (A modular variant -- in-place 64-way contract of curr_player_non_frozen_pieces checked against the CONTRACTS of
//  threatened_pieces / supported_pieces / opponent_piece_mask via stub_verified -- was tried twice and runs out of memory
//  (5 GB and 20 GB caps); the statement is discharged in the symbolic-square form below, with the callee bodies inlined.)

// @obl props=C01,C02,C07,C10,C12,C13,C19 tier=quick kind=harness-contract mem=3 est=20
// @fns GameState::curr_player_non_frozen_pieces GameState::threatened_pieces supported_pieces GameState::opponent_piece_mask influenced_squares
// @clause requires board_wf ensures forall i: bit(r,i) <=> a piece of the mover stands on i and is not frozen (no stronger enemy adjacent, or a friend adjacent)
#[kani::proof]
fn k_curr_player_non_frozen_pieces() {
    let side: bool = kani::any();
    let gs = lean_state(side);
    let pb = any_wf_board();
    let i = any_sq();
    kani::cover!(frozen(&pb, i));
    let r = gs.curr_player_non_frozen_pieces(&pb);
    let mine = match at(&pb, i) {
        Some((_, g)) => g == side,
        None => false,
    };
    assert!(bit(r, i) == (mine && !frozen(&pb, i)), "C01: non-frozen mask = own pieces that are not frozen");
}
// @obl props=C01,C02,C10,C11,C12,C13,C19 tier=quick kind=harness-contract mem=2 est=5
// @fns influenced_squares shift_pieces_in_direction shift_pieces_in_opp_direction shift_in_direction can_move_in_direction
// @clause forall i,d,x: influenced_squares / shift_pieces_in_direction / shift_pieces_in_opp_direction / can_move_in_direction agree with neighbour arithmetic on file and rank (edge masks prevent wrap-around); shift_in_direction moves a single bit to nbr(i,d) when that exists
#[kani::proof]
fn k_shifts() {
    let x: u64 = kani::any();
    let d = any_direction();
    let i = any_sq();
    kani::cover!(nbr(i, d).is_none());
    kani::cover!(nbr(i, d).is_some());
    assert!(bit(influenced_squares(x), i) == any_dir(|e| match nbr(i, e) { Some(j) => bit(x, j), None => false }), "influenced_squares");
    assert!(bit(shift_pieces_in_direction(x, &d), i) == match nbr(i, opp_dir(d)) { Some(j) => bit(x, j), None => false }, "shift_pieces_in_direction");
    assert!(bit(shift_pieces_in_opp_direction(x, &d), i) == match nbr(i, d) { Some(j) => bit(x, j), None => false }, "shift_pieces_in_opp_direction");
    let pb = any_board_raw();
    assert!(bit(can_move_in_direction(&d, &pb), i) == match nbr(i, d) { Some(j) => !bit(pb.all_pieces, j), None => false }, "can_move_in_direction");
    if let Some(j) = nbr(i, d) {
        assert!(shift_in_direction(1u64 << i, &d) == 1u64 << j, "shift_in_direction on a single bit");
        assert!(shift_piece_in_direction(x, 1u64 << i, &d) == if bit(x, i) { (x & !(1u64 << i)) | (1u64 << j) } else { x }, "shift_piece_in_direction");
    }
}
// @obl props=C01,C02,C09,C10,C12,C13,C19 tier=quick kind=harness-contract mem=2 est=5
// @fns GameState::curr_player_piece_mask GameState::opponent_piece_mask GameState::invalid_rabbit_moves GameState::lesser_pieces GameState::is_their_piece piece_type_at_bit PieceBoardState::piece_type_at_square
// @clause requires board_wf ensures the masks equal their at()-based definitions per square; piece_type_at_bit/at_square == type of at(pb,i) (fall-through Cat arm only for cats); is_their_piece <=> owner != mover
#[kani::proof]
fn k_masks() {
    let side: bool = kani::any();
    let gs = lean_state(side);
    let pb = any_wf_board();
    let i = any_sq();
    let d = any_direction();
    let p = any_piece();
    kani::cover!(at(&pb, i).is_some());
    let a = at(&pb, i);
    assert!(bit(gs.curr_player_piece_mask(&pb), i) == match a { Some((_, g)) => g == side, None => false }, "curr_player_piece_mask");
    assert!(bit(gs.opponent_piece_mask(&pb), i) == match a { Some((_, g)) => g != side, None => false }, "opponent_piece_mask");
    assert!(bit(gs.invalid_rabbit_moves(&d, &pb), i) == (d == backward(side) && a == Some((Piece::Rabbit, side))), "invalid_rabbit_moves");
    assert!(bit(gs.lesser_pieces(p, &pb), i) == match a { Some((t, _)) => strength(t) < strength(p), None => false }, "lesser_pieces");
    assert!(pb.piece_type_at_square(&sq(i)) == a.map(|(t, _)| t), "piece_type_at_square");
    if let Some((t, g)) = a {
        assert!(piece_type_at_bit(1u64 << i, &pb) == t, "piece_type_at_bit");
        assert!(gs.is_their_piece(1u64 << i, &pb) == (g != side), "is_their_piece");
    }
    // the derived order on Piece that the engine compares with is the strength order
    let q = any_piece();
    assert!((p > q) == (strength(p) > strength(q)), "Piece: derived Ord == strength order");
}
// @obl props=C04,C19 tier=quick kind=contract mem=2 est=20
// @uses GameState::rabbit_at_goal
// @fns GameState::rabbit_at_goal
// @clause requires board_wf ensures r == (rabbit of the player who just moved on its goal rank (8 for Gold, 1 for Silver; all 8 files) -> that player; else rabbit of the mover on its goal rank -> mover; else None)
#[kani::proof_for_contract(GameState::rabbit_at_goal)]
fn k_rabbit_at_goal() {
    let gs = lean_state(kani::any());
    let pb = any_board_raw();
    kani::cover!(board_wf(&pb));
    gs.rabbit_at_goal(&pb);
}
// @obl props=C04,C19 tier=quick kind=contract mem=2 est=20
// @uses GameState::lost_all_rabbits
// @fns GameState::lost_all_rabbits
// @clause requires board_wf ensures r == (mover has no rabbit -> player who just moved wins; else that player has none -> mover wins; else None)
#[kani::proof_for_contract(GameState::lost_all_rabbits)]
fn k_lost_all_rabbits() {
    let gs = lean_state(kani::any());
    let pb = any_board_raw();
    kani::cover!(board_wf(&pb));
    gs.lost_all_rabbits(&pb);
}

// Harness-contract twins of the in-place contracts above: the same statements with a symbolic square, in the plain copy
// of the crate.  They exist because concrete playback does not reproduce failures of contract closures natively.
// @obl props=C04,C11,C19 tier=quick kind=harness-contract mem=3 est=20
// @fns GameState::rabbit_at_goal GameState::lost_all_rabbits
// @clause requires board_wf ensures rabbit_at_goal == goal_spec (goal rank 8 for Gold / 1 for Silver over all 8 files, last mover first) and lost_all_rabbits == elimination_spec (mover without rabbits loses first), both sides
#[kani::proof]
fn c04_goal_and_elimination() {
    let side: bool = kani::any();
    let gs = lean_state(side);
    let pb = any_wf_board();
    kani::cover!(rabbit_on_goal(&pb, true) && rabbit_on_goal(&pb, false));
    kani::cover!(at(&pb, 63) == Some((Piece::Rabbit, false)), "a Silver rabbit on h1");
    assert!(gs.rabbit_at_goal(&pb) == goal_spec(&pb, side), "C04: goal result (last mover's rabbit first, then the mover's)");
    assert!(gs.lost_all_rabbits(&pb) == elimination_spec(&pb, side), "C04: elimination result (mover without rabbits loses first)");
}
// @obl props=C01,C02,C10,C12,C13,C19 tier=quick kind=harness-contract mem=3 est=20
// @fns supported_pieces both_player_supported_pieces both_player_unsupported_piece_bits GameState::threatened_pieces
// @clause forall words/boards, square i: supported_pieces(x) has bit i <=> i in x and an orthogonal neighbour of i (no wrap-around) in x; both_player_(un)supported: per owner; threatened_pieces == threatened_spec
#[kani::proof]
fn k_support_and_threat() {
    let x: u64 = kani::any();
    let i = any_sq();
    kani::cover!(file_of(i) == 0);
    assert!(bit(supported_pieces(x), i) == (bit(x, i) && any_dir(|d| match nbr(i, d) { Some(j) => bit(x, j), None => false })), "supported_pieces");
    let pb = any_wf_board();
    let sup = match at(&pb, i) {
        Some((_, g)) => has_friend_nbr(&pb, i, g),
        None => false,
    };
    assert!(bit(both_player_supported_pieces(&pb), i) == sup, "both_player_supported_pieces");
    assert!(bit(both_player_unsupported_piece_bits(&pb), i) == (at(&pb, i).is_some() && !sup), "both_player_unsupported_piece_bits");
    let (pred, prey): (u64, u64) = (kani::any(), kani::any());
    let gs = lean_state(kani::any());
    assert!(bit(gs.threatened_pieces(pred, prey, &pb), i) == threatened_spec(&pb, pred, prey, i), "threatened_pieces");
}

// ===========================================================================
// C02  PieceBoard::take_action : a step moves one piece one square and captures
//      exactly the unsupported trap pieces
// ===========================================================================
/// harness-contract of `PieceBoard::take_action(Move(src,d))`
///   requires  legal_board(old) && at(old,src) != None && nbr(src,d) == Some(dst) && at(old,dst) == None
///   ensures   forall i: at(new,i) == after_step_at(old,src,dst,i)
///             board_wf(new) && trap_clean(new)             (all eight words consistent)
///             flag <=> some piece was removed
// @obl props=C02,C05,C10,C13,C19 tier=quick kind=harness-contract mem=3 est=35
// @fns PieceBoard::take_action PieceBoard::move_piece PieceBoard::remove_trapped_pieces PieceBoardState::trapped_piece_bits shift_piece_in_direction shift_in_direction both_player_unsupported_piece_bits both_player_supported_pieces supported_pieces animal_is_on_trap Square::as_bit_board
// @clause requires legal_board(old) && at(old,src)!=None && nbr(src,d)==Some(dst) && at(old,dst)==None
// @clause ensures forall i<64: at(new,i)==after_step_at(old,src,dst,i); board_wf(new); trap_clean(new); flag <=> a piece was removed; no panic/overflow
#[kani::proof]
fn c02_pb_take_action() {
    let pb = any_legal_board();
    let src = any_sq();
    let d = any_direction();
    kani::assume(at(&pb, src).is_some());
    let dst = match nbr(src, d) {
        Some(j) => j,
        None => {
            kani::assume(false);
            0
        }
    };
    kani::assume(at(&pb, dst).is_none());
    kani::cover!(true, "precondition satisfiable");
    kani::cover!(captures_any(&pb, src, dst), "a capturing step exists");

    let i = any_sq(); // the universally quantified square of the postcondition

    let (nb, flag) = PieceBoard(pb.clone()).take_action(&mv(src, d));

    assert!(at(&nb, i) == after_step_at(&pb, src, dst, i), "C02: square content after the step");
    assert!(board_wf(&nb), "C02/C10: the eight words stay consistent");
    assert!(trap_clean(&nb), "C02/C10: no unsupported piece is left on a trap");
    assert!(flag == captures_any(&pb, src, dst), "C02: returned flag <=> something was removed");
}

// ===========================================================================
// Play-phase states for the obligations ("lean": the only heap objects are the per-turn
// board record, whose length IS the step counter, and an empty history list; everything
// else is symbolic).
// ===========================================================================
use crate::zobrist::verif::{raw, zob};

pub fn any_status() -> PushPullState {
    let k: u8 = kani::any();
    let s = Square::from_index(any_sq());
    let p = any_piece();
    match k {
        0 => PushPullState::None,
        1 => PushPullState::PossiblePull(s, p),
        _ => PushPullState::MustCompletePush(s, p),
    }
}
pub fn pp_of(s: PushPullState) -> Pp {
    match s {
        PushPullState::None => Pp::None,
        PushPullState::PossiblePull(sq, p) => Pp::Pull(sq.index() as u8, p),
        PushPullState::MustCompletePush(sq, p) => Pp::Push(sq.index() as u8, p),
    }
}
/// the part of the reachable-state invariant that concerns the push/pull status (DESIGN 5.3):
/// it is established by next_push_pull_state (obligation c12_*) and assumed by the generators
pub fn wf_status(pb: &PieceBoardState, side: bool, step: usize, pp: Pp) -> bool {
    match pp {
        Pp::None => true,
        Pp::Pull(s, p) => step >= 1 && at(pb, s).is_none() && p != Piece::Rabbit,
        Pp::Push(s, p) => {
            step >= 1 && at(pb, s).is_none() && p != Piece::Elephant && has_unfrozen_stronger_nbr(pb, side, s, p)
        }
    }
}
pub fn any_prev_board() -> PieceBoard {
    PieceBoard(any_board_raw())
}
/// previous boards of the turn: a Vec whose (concrete per path) length is the step counter
pub fn prev_boards(step: usize) -> Vec<PieceBoard> {
    match step {
        0 => Vec::new(),
        1 => vec![any_prev_board()],
        2 => vec![any_prev_board(), any_prev_board()],
        _ => vec![any_prev_board(), any_prev_board(), any_prev_board()],
    }
}
pub fn play_state_h(pb: &PieceBoardState, side: bool, step: usize, st: PushPullState, trapped: bool, hash: u64, init: u64, mn: usize) -> GameState {
    let pp = PlayPhase::new(zob(init), List::new(), prev_boards(step), st, trapped);
    GameState::new(side, mn, Phase::PlayPhase(pp), PieceBoard(pb.clone()), zob(hash))
}
pub fn play_state(pb: &PieceBoardState, side: bool, step: usize, st: PushPullState) -> GameState {
    play_state_h(pb, side, step, st, kani::any(), kani::any(), kani::any(), 2)
}

// ===========================================================================
// The seam (DESIGN 4.3).  map_bit_board_to_squares is the only place where a bit set becomes
// a list; its contract (ascending, exactly the set bits) is proved by Verus on the real loop
// (verus/seam.spec).  In obligations about its callers it is replaced by a recorder: the
// argument goes to a ghost log, the result is the one-element list [REP].
// ===========================================================================
pub static mut SEAM_LOG: [u64; 4] = [0; 4];
pub static mut SEAM_N: usize = 0;
pub static mut SEAM_REP: u8 = 0;
pub fn seam_rec(b: u64) -> Vec<Square> {
    unsafe {
        if SEAM_N < 4 {
            SEAM_LOG[SEAM_N] = b;
        }
        SEAM_N += 1;
        vec![Square::from_index(SEAM_REP)]
    }
}
pub fn seam_reset() -> u8 {
    let rep = any_sq();
    unsafe {
        SEAM_N = 0;
        SEAM_REP = rep;
        SEAM_LOG = [0; 4];
    }
    rep
}
/// what the generator obligations assert about the recorded calls and the produced list:
///   v.len() == number of seam calls <= 4; call k was made with a non-empty mask; v[k] == Move(REP, d_k)
///   with d_0 < d_1 < .. in Direction::ALL order; and for the symbolic (i,d):
///   (exists k: d_k == d && bit(mask_k, i)) == spec(i,d)
pub fn seam_list_ok(v: &[Action], base: usize, rep: u8) -> bool {
    // one Move(REP, d) per seam call, every call with a non-empty word, the directions pairwise distinct
    // (no property fixes the ORDER of the directions, so none is demanded)
    let n = unsafe { SEAM_N };
    if n > 4 || v.len() != base + n {
        return false;
    }
    let mut ok = true;
    let mut seen: u8 = 0;
    let mut k = 0;
    while k < 4 {
        if k < n {
            match v[base + k] {
                Action::Move(s, d) => {
                    let m = 1u8 << dir_ord(d);
                    ok = ok && s.index() as u8 == rep && (seen & m) == 0 && unsafe { SEAM_LOG[k] } != 0;
                    seen |= m;
                }
                _ => ok = false,
            }
        }
        k += 1;
    }
    ok
}
pub fn seam_offers(v: &[Action], base: usize, i: u8, d: Direction) -> bool {
    let n = unsafe { SEAM_N };
    let mut r = false;
    let mut k = 0;
    while k < 4 {
        if k < n && base + k < v.len() {
            if let Action::Move(_, dk) = v[base + k] {
                if dk == d && bit(unsafe { SEAM_LOG[k] }, i) {
                    r = true;
                }
            }
        }
        k += 1;
    }
    r
}

// ===========================================================================
// C01 generators (layer 3)
// ===========================================================================
// @obl props=C01,C02,C04,C07,C10,C12,C13,C19 tier=quick kind=harness-contract mem=4 est=60
// @fns GameState::extend_with_valid_curr_player_piece_moves GameState::curr_player_non_frozen_pieces can_move_in_direction GameState::invalid_rabbit_moves
// @clause requires board_wf. ensures (seam abstracted, A1): one Move(REP,d) is appended per seam call with a non-empty mask, at most one call per direction, nothing else; forall (i,d): bit(mask_d,i) <=> simple_step(pb,side,i,d) = unfrozen piece of the mover on i, nbr(i,d) empty, not a rabbit moving backward
#[kani::proof]
#[kani::unwind(6)]
#[kani::stub(crate::action::map_bit_board_to_squares, seam_rec)]
fn c01_gen_steps() {
    let side: bool = kani::any();
    let pb = any_wf_board();
    let gs = lean_state(side);
    let i = any_sq();
    let d = any_direction();
    let rep = seam_reset();
    kani::cover!(simple_step(&pb, side, i, d));
    let mut v: Vec<Action> = Vec::new();
    gs.extend_with_valid_curr_player_piece_moves(&mut v, &pb);
    assert!(seam_list_ok(&v, 0, rep), "C01: one Move(REP,d) per non-empty direction mask handed to the seam, each direction at most once");
    assert!(seam_offers(&v, 0, i, d) == simple_step(&pb, side, i, d), "C01: offered single steps == legal single steps");
}
// @obl props=C01,C02,C04,C07,C10,C12,C13,C19 tier=quick kind=harness-contract mem=5 est=90
// @fns GameState::extend_with_push_piece_actions GameState::curr_player_non_frozen_pieces GameState::threatened_pieces can_move_in_direction PushPullState::can_push
// @clause requires board_wf, wf_status, step in 0..3 (all four, symbolic). ensures (seam abstracted): nothing is produced when a push is pending or step == 3; otherwise forall (i,d): bit(mask_d,i) <=> push_start = enemy piece on i, nbr(i,d) empty, an unfrozen strictly stronger piece of the mover adjacent to i
#[kani::proof]
#[kani::unwind(6)]
#[kani::stub(crate::action::map_bit_board_to_squares, seam_rec)]
fn c01_gen_push() {
    let side: bool = kani::any();
    let pb = any_wf_board();
    let step: usize = kani::any();
    kani::assume(step <= 3);
    let st = any_status();
    kani::assume(wf_status(&pb, side, step, pp_of(st)));
    let gs = play_state(&pb, side, step, st);
    let i = any_sq();
    let d = any_direction();
    let rep = seam_reset();
    kani::cover!(step == 0 && push_start(&pb, side, step, i, d));
    kani::cover!(step == 3);
    kani::cover!(matches!(st, PushPullState::MustCompletePush(_, _)));
    let mut v: Vec<Action> = Vec::new();
    gs.extend_with_push_piece_actions(&mut v, &pb);
    assert!(seam_list_ok(&v, 0, rep), "C01: one Move(REP,d) per non-empty push mask handed to the seam, each direction at most once");
    let pending = matches!(st, PushPullState::MustCompletePush(_, _));
    assert!(seam_offers(&v, 0, i, d) == (!pending && push_start(&pb, side, step, i, d)), "C01: offered push starts == legal push starts");
}

/// membership of Move(i,d) in a short list, by unrolled index comparison
pub fn has_move_in(v: &[Action], i: u8, d: Direction) -> bool {
    let mut r = false;
    let mut k = 0;
    while k < 4 {
        if k < v.len() {
            if let Action::Move(s, dk) = v[k] {
                if s.index() as u8 == i && dk == d {
                    r = true;
                }
            }
        }
        k += 1;
    }
    r
}
pub fn count_move_in(v: &[Action], i: u8, d: Direction) -> u8 {
    let mut r = 0;
    let mut k = 0;
    while k < 4 {
        if k < v.len() {
            if let Action::Move(s, dk) = v[k] {
                if s.index() as u8 == i && dk == d {
                    r += 1;
                }
            }
        }
        k += 1;
    }
    r
}
/// every listed action is a Move from a real square (index < 64) that satisfies `legal`
pub fn all_legal<F: Fn(u8, Direction) -> bool>(v: &[Action], from: usize, legal: F) -> bool {
    let mut r = true;
    let mut k = 0;
    while k < 5 {
        if k >= from && k < v.len() {
            r = r && match v[k] {
                Action::Move(s, d) => s.index() < 64 && legal(s.index() as u8, d),
                _ => false,
            };
        }
        k += 1;
    }
    r
}
pub fn all_moves(v: &[Action]) -> bool {
    let mut r = true;
    let mut k = 0;
    while k < 4 {
        if k < v.len() {
            r = r && matches!(v[k], Action::Move(_, _));
        }
        k += 1;
    }
    r
}

// @obl props=C01,C02,C07,C10,C12,C13,C19 tier=quick kind=harness-contract mem=10 est=60 timeout=1500
// @fns GameState::extend_with_pull_piece_actions GameState::lesser_pieces GameState::opponent_piece_mask shift_pieces_in_direction shift_pieces_in_opp_direction Square::from_bit_board PushPullState::as_possible_pull
// @clause requires board_wf, wf_status. ensures (real Vec, <= 4 entries): started from an empty list the result contains Move(i,d) <=> status is PossiblePull(psq,pt) and pull_complete(psq,pt,i,d) = strictly weaker enemy on i steps into the vacated square; no duplicates; only Moves; at most 4
#[kani::proof]
#[kani::unwind(6)]
fn c01_gen_pull() {
    let side: bool = kani::any();
    let pb = any_wf_board();
    let step: usize = 1; // the function never reads the step counter (only the status), so one concrete length of the per-turn record suffices
    let st = any_status();
    kani::assume(wf_status(&pb, side, step, pp_of(st)));
    let gs = play_state(&pb, side, step, st);
    let i = any_sq();
    let d = any_direction();
    let spec = match pp_of(st) {
        Pp::Pull(psq, pt) => pull_complete(&pb, side, psq, pt, i, d),
        _ => false,
    };
    kani::cover!(spec);
    let mut v: Vec<Action> = Vec::with_capacity(8); // as in valid_actions_ (with_capacity(50)): no reallocation while appending
    gs.extend_with_pull_piece_actions(&mut v, &pb);
    assert!(v.len() <= 4 && all_moves(&v), "C01: at most four pull completions, all Moves");
    assert!(has_move_in(&v, i, d) == spec, "C01: offered pull completions == legal pull completions");
    assert!(count_move_in(&v, i, d) <= 1, "C01: no pull completion listed twice");
    let pp = pp_of(st);
    assert!(all_legal(&v, 0, |s, e| match pp { Pp::Pull(psq, pt) => pull_complete(&pb, side, psq, pt, s, e), _ => false }), "C01/C19: every listed pull completion is a legal step from a real square");
}
// @obl props=C01,C02,C10,C12,C13,C19 tier=quick kind=harness-contract mem=10 est=60 timeout=1500
// @fns GameState::extend_with_pull_piece_actions
// @clause de-duplication: when the list already holds one Move (e.g. the same step offered as a push start) the pull generator appends a completion only if it is not that action, keeps the prefix, and never duplicates
#[kani::proof]
#[kani::unwind(7)]
fn c01_gen_pull_dedup() {
    let side: bool = kani::any();
    let pb = any_wf_board();
    let st = any_status();
    let step: usize = 1; // not read by the function
    kani::assume(wf_status(&pb, side, step, pp_of(st)));
    let gs = play_state(&pb, side, step, st);
    let (pi, pd) = (any_sq(), any_direction());
    let i = any_sq();
    let d = any_direction();
    let spec = match pp_of(st) {
        Pp::Pull(psq, pt) => pull_complete(&pb, side, psq, pt, i, d),
        _ => false,
    };
    kani::cover!(spec && pi == i && pd == d);
    kani::cover!(spec && !(pi == i && pd == d));
    let mut v: Vec<Action> = Vec::with_capacity(8);
    v.push(mv(pi, pd));
    gs.extend_with_pull_piece_actions(&mut v, &pb);
    assert!(v.len() >= 1 && v.len() <= 5 && v[0] == mv(pi, pd), "C01: prefix kept");
    let mut cnt = 0;
    let mut k = 0;
    while k < 5 {
        if k < v.len() && v[k] == mv(i, d) {
            cnt += 1;
        }
        k += 1;
    }
    assert!((cnt >= 1) == (spec || (pi == i && pd == d)), "C01: pull completion present iff legal (or already listed)");
    assert!(cnt <= 1, "C01: no action listed twice after de-duplication");
    let pp = pp_of(st);
    assert!(all_legal(&v, 1, |s, e| match pp { Pp::Pull(psq, pt) => pull_complete(&pb, side, psq, pt, s, e), _ => false }), "C01/C19: everything appended is a legal pull completion from a real square");
}
// @obl props=C01,C02,C07,C10,C12,C13,C19 tier=quick kind=harness-contract mem=5 est=160
// @fns GameState::must_complete_push_actions GameState::curr_player_non_frozen_pieces shift_pieces_in_opp_direction piece_type_at_bit PushPullState::unwrap_must_complete_push Square::from_bit_board
// @clause requires board_wf, status == MustCompletePush(psq,vt) with wf_status. ensures (real Vec): result contains Move(i,d) <=> push_complete = unfrozen piece of the mover on i, strictly stronger than the pushed piece, nbr(i,d) == psq (empty); 1 <= len <= 4 (continuability); no duplicates; no panic (unwrap_must_complete_push, piece_type_at_bit on an occupied bit)
#[kani::proof]
#[kani::unwind(6)]
fn c01_gen_push_completion() {
    let side: bool = kani::any();
    let pb = any_wf_board();
    let st = any_status();
    let step: usize = kani::any();
    kani::assume(step >= 1 && step <= 3);
    kani::assume(matches!(st, PushPullState::MustCompletePush(_, _)));
    kani::assume(wf_status(&pb, side, step, pp_of(st)));
    let gs = play_state(&pb, side, step, st);
    let i = any_sq();
    let d = any_direction();
    let spec = match pp_of(st) {
        Pp::Push(psq, vt) => push_complete(&pb, side, psq, vt, i, d),
        _ => false,
    };
    kani::cover!(spec);
    let v = gs.must_complete_push_actions(&pb);
    assert!(v.len() >= 1 && v.len() <= 4 && all_moves(&v), "C01/C12: a pending push always has 1..4 completions");
    assert!(has_move_in(&v, i, d) == spec, "C01/C12: push completions == steps of unfrozen strictly stronger friends into the vacated square");
    assert!(count_move_in(&v, i, d) <= 1, "C01: no push completion listed twice");
    let pp = pp_of(st);
    assert!(all_legal(&v, 0, |s, e| match pp { Pp::Push(psq, vt) => push_complete(&pb, side, psq, vt, s, e), _ => false }), "C01/C19: every listed push completion is a legal step from a real square");
}
// ===========================================================================
// The history oracle (DESIGN 4.4).  hash_history_contains_hash_twice is the only reader of
// the history list.  Above the leaf it is replaced by TWICE: an uninterpreted boolean function
// of the queried hash, realised lazily with a memo table (first query of a key picks a
// nondeterministic answer, later queries of the same key repeat it).  A contract proved
// against it holds for every history of every length.
// ===========================================================================
use crate::zobrist_values::{INITIAL, PLAYER_TO_MOVE, STEP_VALUES};
pub static mut OR_K: [u64; 4] = [0; 4];
pub static mut OR_V: [bool; 4] = [false; 4];
pub static mut OR_N: usize = 0;
pub fn twice(k: u64) -> bool {
    unsafe {
        let mut j = 0;
        while j < 4 {
            if j < OR_N && OR_K[j] == k {
                return OR_V[j];
            }
            j += 1;
        }
        let v: bool = kani::any();
        if OR_N < 4 {
            OR_K[OR_N] = k;
            OR_V[OR_N] = v;
        }
        OR_N += 1;
        v
    }
}
pub fn twice_oracle(_history: &List<Zobrist>, h: &Zobrist) -> bool {
    twice(raw(h))
}
pub fn oracle_reset() {
    unsafe {
        OR_N = 0;
    }
}
pub fn oracle_ok() -> bool {
    unsafe { OR_N <= 4 }
}

// @obl props=C01,C05,C06,C07,C19 tier=quick kind=harness-contract mem=3 est=20
// @fns GameState::can_pass Zobrist::pass Zobrist::exclude_step PushPullState::is_must_complete_push
// @clause forall board, side, step 0..3, status, hash, initial hash, oracle: can_pass(false) <=> step >= 1 && no push pending; can_pass(true) <=> that && exclude_step(hash) != initial_hash_of_move && !TWICE(pass(hash)) where exclude_step/pass are hash ^ STEP[step] ^ STEP[0] (^ PLAYER_TO_MOVE); false in setup
#[kani::proof]
#[kani::unwind(6)]
#[kani::stub(crate::engine::hash_history_contains_hash_twice, twice_oracle)]
fn c06_can_pass() {
    let side: bool = kani::any();
    let pb = any_wf_board();
    let step: usize = kani::any();
    kani::assume(step <= 3);
    let st = any_status();
    let (hash, init): (u64, u64) = (kani::any(), kani::any());
    let gs = play_state_h(&pb, side, step, st, kani::any(), hash, init, 2);
    oracle_reset();
    kani::cover!(step == 0);
    kani::cover!(step == 3 && matches!(st, PushPullState::PossiblePull(_, _)));
    let pending = matches!(st, PushPullState::MustCompletePush(_, _));
    let rules_only = step >= 1 && !pending;
    assert!(gs.can_pass(false) == rules_only, "C01/C07: can_pass(false) <=> a step was made and no push is pending");
    let h0_same_side = hash ^ STEP_VALUES[step] ^ STEP_VALUES[0];
    let h0_other_side = h0_same_side ^ PLAYER_TO_MOVE;
    let got = gs.can_pass(true);
    let want = rules_only && h0_same_side != init && !twice(h0_other_side);
    assert!(got == want, "C06: can_pass(true) <=> allowed by the rules, board differs from the turn start (hash), and not a third occurrence (oracle)");
    assert!(oracle_ok());
    let setup = GameState::new(side, 1, Phase::PlacePhase, PieceBoard(pb.clone()), zob(hash));
    assert!(!setup.can_pass(false) && !setup.can_pass(true), "C07: no pass in setup");
}

// ===========================================================================
// C12  next_push_pull_state / move_can_be_counted_as_pull
// ===========================================================================
// @obl props=C01,C10,C12,C19 tier=quick kind=harness-contract mem=4 est=60
// @fns GameState::next_push_pull_state GameState::move_can_be_counted_as_pull GameState::is_their_piece piece_type_at_bit shift_in_direction
// @clause requires board_wf, wf_status, Move(i,d) offered by the rules (offered_move), step 0..2. ensures status' == next_pp: enemy displaced and not completing a pull -> MustCompletePush(i, type); own non-rabbit stepped and not completing a push -> PossiblePull(i, type); else None
#[kani::proof]
#[kani::unwind(6)]
fn c12_next_status() {
    let side: bool = kani::any();
    let pb = any_wf_board();
    let step: usize = kani::any();
    kani::assume(step <= 2);
    let st = any_status();
    let pp = pp_of(st);
    kani::assume(wf_status(&pb, side, step, pp));
    let i = any_sq();
    let d = any_direction();
    kani::assume(offered_move(&pb, side, step, pp, i, d));
    let gs = play_state(&pb, side, step, st);
    kani::cover!(matches!(next_pp(&pb, side, pp, i, d), Pp::Push(_, _)));
    kani::cover!(matches!(next_pp(&pb, side, pp, i, d), Pp::Pull(_, _)));
    kani::cover!(matches!(pp, Pp::Pull(_, _)) && matches!(next_pp(&pb, side, pp, i, d), Pp::None));
    let r = gs.next_push_pull_state(&sq(i), &d);
    assert!(pp_of(r) == next_pp(&pb, side, pp, i, d), "C12: reported status describes the step just made");
}
// @obl props=C01,C10,C12,C19 tier=quick kind=harness-contract mem=4 est=120
// @fns PieceBoard::take_action GameState::next_push_pull_state
// @clause invariant preservation (heap-free): legal_board, wf_status, Move(i,d) offered by the rules, step 0..2 ==> after the step the status invariant holds again on the new board: PossiblePull(s,p) => s empty, p not a rabbit; MustCompletePush(s,p) => s empty, p not an elephant, and an unfrozen strictly stronger piece of the mover is adjacent to s (so the push can be completed: continuability); the new board is legal
#[kani::proof]
fn c12_status_invariant() {
    let side: bool = kani::any();
    let pb = any_legal_board();
    let step: usize = kani::any();
    kani::assume(step <= 2);
    let pp = pp_of(any_status());
    kani::assume(wf_status(&pb, side, step, pp));
    kani::assume(step > 0 || pp == Pp::None);
    let i = any_sq();
    let d = any_direction();
    kani::assume(offered_move(&pb, side, step, pp, i, d));
    kani::cover!(matches!(next_pp(&pb, side, pp, i, d), Pp::Push(_, _)));
    kani::cover!(matches!(next_pp(&pb, side, pp, i, d), Pp::Pull(_, _)));
    let (nb, _) = PieceBoard(pb.clone()).take_action(&mv(i, d));
    assert!(wf_status(&nb, side, step + 1, next_pp(&pb, side, pp, i, d)), "C12/C01: status invariant preserved; a pending push always has a completion");
    assert!(legal_board(&nb), "C10: legal position preserved");
}
// ===========================================================================
// Layer 5: transitions.  GameState::take_action(Move) / (Pass), one obligation per step case
// (the per-turn record then has a concrete length).  The Zobrist board delta is a ghost value
// here (piece_board_value is stubbed; its own contract == Hb(prev) ^ Hb(new) is a Verus
// obligation, verus/pbv.spec), so the hash is checked in difference form.
// ===========================================================================
pub static mut PBV: u64 = 0;
pub fn pbv_ghost(_a: &PieceBoardState, _b: &PieceBoardState) -> u64 {
    unsafe { PBV }
}
/// a history list of symbolic length 0..2 (built with the real List API)
pub fn any_short_history() -> (List<Zobrist>, usize, u64) {
    let n: u8 = kani::any();
    kani::assume(n <= 2);
    let (a, b): (u64, u64) = (kani::any(), kani::any());
    match n {
        0 => (List::new(), 0, 0),
        1 => (List::new().append(zob(a)), 1, a),
        _ => (List::new().append(zob(b)).append(zob(a)), 2, a),
    }
}

fn step_transition(step: usize) {
    let side: bool = kani::any();
    let pb = any_wf_board();
    let st = any_status();
    kani::assume(step > 0 || matches!(st, PushPullState::None));
    let i = any_sq();
    let d = any_direction();
    let (hash, init, mn): (u64, u64, usize) = (kani::any(), kani::any(), kani::any());
    kani::assume(mn < usize::MAX); // machine range of the move counter: known finding D4 (obligation c03_move_number_range)
    let trapped: bool = kani::any();
    let (hist, hist_len, hist_head) = any_short_history();
    let prev = prev_boards(step);
    let prev_copy: Vec<PieceBoardState> = prev.iter().map(|b| b.0.clone()).collect();
    let pbv: u64 = kani::any();
    unsafe {
        PBV = pbv;
    }
    let playphase = PlayPhase::new(zob(init), hist, prev, st, trapped);
    let gs = GameState::new(side, mn, Phase::PlayPhase(playphase), PieceBoard(pb.clone()), zob(hash));
    // what the callees (each under its own contract) return on the old state
    let (want_board, captured) = PieceBoard(pb.clone()).take_action(&mv(i, d)); // contract: c02_pb_take_action
    let want_status = gs.next_push_pull_state(&sq(i), &d); // contract: c12_next_status
    kani::cover!(captured, "a capturing step");
    kani::cover!(!captured, "a non-capturing step");

    let ns = gs.take_action(&mv(i, d));

    // C02 (lifted): the new board is PieceBoard::take_action's result
    assert!(same_board(ns.piece_board(), &want_board), "C02: the state's new board is the result of applying the step to the old board");
    // C03
    let last = step == 3;
    assert!(ns.is_p1_turn_to_move() == (if last { !side } else { side }), "C03: side to move");
    assert!(ns.current_step() == (if last { 0 } else { step + 1 }), "C03: step counter");
    assert!(ns.move_number() == mn + (if last && !side { 1 } else { 0 }), "C03: move number grows exactly when Silver's turn ends");
    let np = ns.unwrap_play_phase();
    // C12
    assert!(np.push_pull_state() == (if last { PushPullState::None } else { want_status }), "C12: status after the step (None at turn start)");
    // C14
    let rec = np.previous_piece_boards();
    if last {
        assert!(rec.len() == 0, "C14/C03: fresh per-turn record at turn start");
    } else {
        assert!(rec.len() == step + 1, "C14: one board recorded per step made");
        let mut k = 0;
        while k < 3 {
            if k < step {
                assert!(same_board(rec[k].piece_board(), &prev_copy[k]), "C14: earlier boards of the turn are kept");
            }
            k += 1;
        }
        assert!(same_board(rec[step].piece_board(), &pb), "C14: the board before this step is recorded as board `step`");
    }
    // C08 (difference form)
    let ptm = if last { PLAYER_TO_MOVE } else { 0 };
    let new_step = if last { 0 } else { step + 1 };
    let want_hash = hash ^ ptm ^ STEP_VALUES[step] ^ STEP_VALUES[new_step] ^ pbv;
    assert!(raw(&ns.hash) == want_hash, "C08: hash' == hash ^ side switch ^ step change ^ board delta");
    assert!(raw(&np.initial_hash_of_move) == (if last { want_hash } else { init }), "C05/C08: turn-start hash kept within the turn, renewed at turn end");
    // C05 h3: history bookkeeping
    let hh = np.hash_history();
    if last {
        assert!(hh.len() == (if captured { 0 } else { hist_len }) + 1, "C05: history appended at turn end (after a reset if this step captured)");
        assert!(hh.head().map(|z| raw(z)) == Some(want_hash), "C05/C08: the recorded entry is the new turn-start hash");
        assert!(!np.piece_trapped_this_turn(), "C05: capture flag reset at turn start");
    } else {
        assert!(hh.len() == (if captured { 0 } else { hist_len }), "C05: mid-turn the history is unchanged, or reset exactly at a capture");
        if !captured && hist_len > 0 {
            assert!(hh.head().map(|z| raw(z)) == Some(hist_head), "C05: mid-turn history head unchanged");
        }
        assert!(np.piece_trapped_this_turn() == (trapped || captured), "C05: capture flag accumulates within the turn");
    }
}
// @obl props=C02,C03,C05,C06,C08,C10,C12,C14,C19 tier=quick kind=harness-contract mem=6 est=120 timeout=1500
// @fns GameState::take_action GameState::move_piece PieceBoard::take_action GameState::next_piece_boards_this_move GameState::next_push_pull_state Zobrist::move_piece step_value PlayPhase::initial PlayPhase::new List::append List::clone
// @clause step 0 of a turn. requires board_wf, status None, any Move(i,d), move_number < usize::MAX. ensures board == PieceBoard::take_action(old board) (contract c02); same side, step 1, move number same; status == next_push_pull_state(old) (contract c12); per-turn record == [old board]; hash' == hash ^ STEP[0] ^ STEP[1] ^ delta; initial hash kept; history unchanged or reset at capture; capture flag accumulated; no panic
#[kani::proof]
#[kani::unwind(6)]
#[kani::stub(crate::zobrist::piece_board_value, pbv_ghost)]
fn t_step_at_0() {
    step_transition(0);
}
// @obl props=C02,C03,C05,C06,C08,C12,C14,C19 tier=quick kind=harness-contract mem=6 est=150 timeout=1500
// @fns GameState::take_action GameState::move_piece GameState::next_piece_boards_this_move GameState::next_push_pull_state
// @clause step 1 (same postcondition, record of length 1 -> 2, any status)
#[kani::proof]
#[kani::unwind(6)]
#[kani::stub(crate::zobrist::piece_board_value, pbv_ghost)]
fn t_step_at_1() {
    step_transition(1);
}
// @obl props=C02,C03,C05,C06,C08,C12,C14,C19 tier=quick kind=harness-contract mem=6 est=150 timeout=1500
// @fns GameState::take_action GameState::move_piece GameState::next_piece_boards_this_move GameState::next_push_pull_state
// @clause step 2 (same postcondition, record of length 2 -> 3, any status)
#[kani::proof]
#[kani::unwind(6)]
#[kani::stub(crate::zobrist::piece_board_value, pbv_ghost)]
fn t_step_at_2() {
    step_transition(2);
}
// @obl props=C02,C03,C05,C06,C08,C12,C14,C19 tier=quick kind=harness-contract mem=6 est=120 timeout=1500
// @fns GameState::take_action GameState::move_piece PlayPhase::initial List::append
// @clause step 3 = turn end. ensures board == rule result; other side, step 0, status None, empty per-turn record, move number +1 iff Silver moved; hash' == hash ^ PLAYER_TO_MOVE ^ STEP[3] ^ STEP[0] ^ delta; initial hash == hash'; history == (captured ? [] : old) ++ [hash']; capture flag false
#[kani::proof]
#[kani::unwind(6)]
#[kani::stub(crate::zobrist::piece_board_value, pbv_ghost)]
fn t_step_at_3() {
    step_transition(3);
}
fn pass_transition(step: usize) {
    let side: bool = kani::any();
    let pb = any_wf_board();
    let st = any_status();
    kani::assume(!matches!(st, PushPullState::MustCompletePush(_, _))); // a pass is only offered when no push is pending (c06_can_pass)
    let (hash, init, mn): (u64, u64, usize) = (kani::any(), kani::any(), kani::any());
    kani::assume(mn < usize::MAX); // known finding D4
    let trapped: bool = kani::any();
    let (hist, hist_len, _) = any_short_history();
    let playphase = PlayPhase::new(zob(init), hist, prev_boards(step), st, trapped);
    let gs = GameState::new(side, mn, Phase::PlayPhase(playphase), PieceBoard(pb.clone()), zob(hash));
    kani::cover!(trapped);
    kani::cover!(!trapped && hist_len == 2);

    let ns = gs.take_action(&Action::Pass);

    assert!(same_board(ns.piece_board(), &pb), "C02: a pass leaves the board unchanged");
    assert!(ns.is_p1_turn_to_move() == !side, "C03: other player on move after a pass");
    assert!(ns.current_step() == 0, "C03: step 0 after a pass");
    assert!(ns.move_number() == mn + (if side { 0 } else { 1 }), "C03: move number grows exactly when Silver's turn ends");
    let np = ns.unwrap_play_phase();
    assert!(np.push_pull_state() == PushPullState::None, "C12/C03: nothing pending at turn start");
    assert!(np.previous_piece_boards().len() == 0, "C14/C03: fresh per-turn record");
    let want_hash = hash ^ PLAYER_TO_MOVE ^ STEP_VALUES[step] ^ STEP_VALUES[0];
    assert!(raw(&ns.hash) == want_hash, "C08: hash after a pass");
    assert!(raw(&np.initial_hash_of_move) == want_hash, "C05/C08: new turn-start hash");
    let hh = np.hash_history();
    assert!(hh.len() == (if trapped { 0 } else { hist_len }) + 1, "C05: history appended at turn end (after a reset if a capture happened this turn)");
    assert!(hh.head().map(|z| raw(z)) == Some(want_hash), "C05/C08: the recorded entry is the new turn-start hash");
    assert!(!np.piece_trapped_this_turn(), "C05: capture flag reset at turn start");
}
// @obl props=C02,C03,C05,C06,C08,C12,C14,C19 tier=quick kind=harness-contract mem=4 est=40
// @fns GameState::take_action GameState::pass Zobrist::pass PlayPhase::initial List::append List::clone
// @clause pass at step 1, 2 and 3 (three obligations). requires board_wf, no push pending, move_number < usize::MAX. ensures board unchanged (all eight words); other side, step 0, status None, empty record; move number +1 iff Silver passed; hash' == hash ^ PLAYER_TO_MOVE ^ STEP[step] ^ STEP[0] == initial hash'; history == (capture this turn ? [] : old) ++ [hash']; flag reset
#[kani::proof]
#[kani::unwind(6)]
fn t_pass_at_1() {
    pass_transition(1);
}
// @obl props=C02,C03,C05,C06,C08,C19 tier=quick kind=harness-contract mem=4 est=40
// @fns GameState::take_action GameState::pass
// @clause pass at step 2 (same postcondition)
#[kani::proof]
#[kani::unwind(6)]
fn t_pass_at_2() {
    pass_transition(2);
}
// @obl props=C02,C03,C05,C06,C08,C19 tier=quick kind=harness-contract mem=4 est=40
// @fns GameState::take_action GameState::pass
// @clause pass at step 3 (same postcondition)
#[kani::proof]
#[kani::unwind(6)]
fn t_pass_at_3() {
    pass_transition(3);
}
// @obl props=C03,C19 tier=quick kind=harness-contract mem=4 est=40
// @known D4
// @fns GameState::move_piece GameState::pass
// @clause the same transitions WITHOUT the precondition move_number < usize::MAX: expected to fail only with `attempt to add with overflow` at the move-number increment (known finding D4); any other failed check here is a fresh violation
#[kani::proof]
#[kani::unwind(6)]
#[kani::stub(crate::zobrist::piece_board_value, pbv_ghost)]
fn c03_move_number_range() {
    let side: bool = kani::any();
    let pb = any_wf_board();
    let mn: usize = kani::any();
    let playphase = PlayPhase::new(zob(kani::any()), List::new(), prev_boards(3), PushPullState::None, false);
    let gs = GameState::new(side, mn, Phase::PlayPhase(playphase), PieceBoard(pb.clone()), zob(kani::any()));
    kani::cover!(mn == usize::MAX);
    let a = gs.take_action(&Action::Pass);
    let b = gs.take_action(&mv(any_sq(), any_direction()));
    assert!(a.move_number() >= mn && b.move_number() >= mn);
}

// ===========================================================================
// C14  piece_board_for_step
// ===========================================================================
// @obl props=C14,C19 tier=quick kind=harness-contract mem=4 est=40
// @fns GameState::piece_board_for_step GameState::current_step GameState::piece_board PlayPhase::step
// @clause forall play states with k = 0..3 steps made and i <= k: piece_board_for_step(i) is the i-th recorded board for i < k and the current board for i == k (same eight words); no panic / out-of-bounds for i <= k
#[kani::proof]
#[kani::unwind(6)]
fn c14_board_for_step() {
    board_for_step(0);
    board_for_step(1);
    board_for_step(2);
    board_for_step(3);
}
fn board_for_step(step: usize) {
    let pb = any_board_raw();
    let prev = prev_boards(step);
    let prev_copy: Vec<PieceBoardState> = prev.iter().map(|b| b.0.clone()).collect();
    let playphase = PlayPhase::new(zob(kani::any()), List::new(), prev, any_status(), kani::any());
    let gs = GameState::new(kani::any(), 2, Phase::PlayPhase(playphase), PieceBoard(pb.clone()), zob(kani::any()));
    assert!(gs.current_step() == step, "C03/C14: the step counter is the length of the per-turn record");
    kani::cover!(true);
    let mut i = 0;
    while i < 4 {
        if i <= step {
            let r = gs.piece_board_for_step(i);
            if i == step {
                assert!(same_board(r, &pb), "C14: board of the current step is the current board");
            } else {
                assert!(same_board(r, &prev_copy[i]), "C14: board of an earlier step is the recorded one");
            }
        }
        i += 1;
    }
}

// ===========================================================================
// C13  trapped_animal_for_action
// ===========================================================================
// @obl props=C13,C19 tier=quick kind=harness-contract mem=3 est=40
// @fns GameState::trapped_animal_for_action PieceBoard::move_piece PieceBoardState::trapped_piece_bits Square::from_bit_board PieceBoardState::piece_type_at_square PieceBoardState::bits_for_piece PieceBoard::take_action
// @clause requires legal_board, step onto an empty neighbour of an occupied square. ensures preview == None <=> PieceBoard::take_action's capture flag is false <=> nothing removed; otherwise preview == (sq,p,g) where (p,g) is the piece standing on sq after the move and sq is the one and only square emptied by the capture; at most one piece is removed per step; Place/Pass => None; no panic (unwrap, from_bit_board on one bit)
#[kani::proof]
fn c13_preview() {
    let pb = any_legal_board();
    let i = any_sq();
    let d = any_direction();
    kani::assume(at(&pb, i).is_some());
    let dst = match nbr(i, d) {
        Some(j) => j,
        None => {
            kani::assume(false);
            0
        }
    };
    kani::assume(at(&pb, dst).is_none());
    let q = any_sq();
    // the preview never looks at the phase: run it on a setup-phase wrapper (no heap)
    let gs = GameState::new(kani::any(), 2, Phase::PlacePhase, PieceBoard(pb.clone()), Zobrist::initial());
    kani::cover!(captures_any(&pb, i, dst));
    kani::cover!(captured_at(&pb, i, dst, 42) && at(&pb, 42).map_or(false, |(_, g)| !g), "Silver piece captured on c3");
    let preview = gs.trapped_animal_for_action(&mv(i, d));
    let (nb, flag) = PieceBoard(pb.clone()).take_action(&mv(i, d));
    assert!(preview.is_none() == !flag, "C13: preview is None exactly when applying the step removes nothing");
    assert!(flag == captures_any(&pb, i, dst));
    match preview {
        None => {
            assert!(at(&nb, q) == after_move_at(&pb, i, dst, q), "C13: nothing removed");
        }
        Some((s, p, g)) => {
            let si = s.index() as u8;
            assert!(si < 64 && is_trap(si), "C13: reported square is a trap");
            assert!(after_move_at(&pb, i, dst, si) == Some((p, g)), "C13: reported type and owner are those of the piece removed");
            assert!(at(&nb, si).is_none(), "C13: the reported piece is gone after the step");
            assert!(q == si || at(&nb, q) == after_move_at(&pb, i, dst, q), "C13: it is the only piece removed (at most one capture per step)");
        }
    }
    assert!(gs.trapped_animal_for_action(&Action::Pass).is_none() && gs.trapped_animal_for_action(&Action::Place(any_piece())).is_none(), "C13: Pass/Place capture nothing");
}
// ===========================================================================
// C09  setup phase: placement_bit / valid_placement / place
// ===========================================================================
pub fn action_list_eq(v: &[Action], want: &[Option<Action>; 6]) -> bool {
    // `want` with the None entries squeezed out must equal v
    let mut k = 0;
    let mut ok = true;
    let mut j = 0;
    while j < 6 {
        if let Some(a) = want[j] {
            ok = ok && k < v.len() && v[k] == a;
            k += 1;
        }
        j += 1;
    }
    ok && k == v.len()
}
// @obl props=C07,C08,C09,C10,C19 tier=quick kind=harness-contract mem=6 est=150 timeout=1500
// @fns GameState::place GameState::valid_placement GameState::valid_actions_ PieceBoardState::placement_bit first_set_bit single_bit_index_u64 PieceBoard::new Zobrist::place_piece GameState::curr_player_piece_mask Square::from_bit_board GameState::is_terminal GameState::is_play_phase
// @clause requires wf_place(board,n) for a symbolic n in 0..31 (every prefix of every placement order), mover == (n<16). ensures valid_actions() == [Place(t) for t in E,M,H,D,C,R with count(t,mover) < complement(t)], non-empty; is_terminal == None; for every offered t: place puts (t, mover) on the n-th home square (Gold a2..h2,a1..h1; Silver a8..h8,a7..h7), changes nothing else, keeps wf_place(n+1); Silver on move after the 16th, play phase/Gold/move 2/step 0/nothing pending/history == [hash'] after the 32nd, else still setup with move number 1; hash' == hash ^ piece_value(target,t,mover) ^ (PLAYER_TO_MOVE at the 16th and 32nd) ^ (STEP[0] at the 32nd); no panic (first_set_bit(0) unreachable)
#[kani::proof]
#[kani::unwind(8)]
fn c09_setup() {
    let pb = any_board_raw();
    let n: u8 = kani::any();
    kani::assume(n <= 31);
    kani::assume(wf_place(&pb, n));
    let side = place_mover(n);
    let hash: u64 = kani::any();
    let gs = GameState::new(side, 1, Phase::PlacePhase, PieceBoard(pb.clone()), zob(hash));
    let q = any_sq();
    kani::cover!(n == 0);
    kani::cover!(n == 15);
    kani::cover!(n == 31);

    // offered placements
    let acts = gs.valid_actions();
    let off = |t: Piece| if count(&pb, t, side) < complement(t) { Some(Action::Place(t)) } else { None };
    let want = [off(Piece::Elephant), off(Piece::Camel), off(Piece::Horse), off(Piece::Dog), off(Piece::Cat), off(Piece::Rabbit)];
    assert!(action_list_eq(&acts, &want), "C09: offered placements == types below the full complement, in E,M,H,D,C,R order");
    assert!(acts.len() >= 1, "C07: setup always has a placement to offer");
    assert!(gs.is_terminal().is_none() && !gs.is_play_phase(), "C07/C04: no result during setup");
    let same = gs.valid_actions_no_rep();
    assert!(same.len() == acts.len(), "C06: repetition rules do not apply in setup");

    // effect of an offered placement
    let t = any_piece();
    kani::assume(count(&pb, t, side) < complement(t));
    let ns = gs.take_action(&Action::Place(t));
    let nb = ns.piece_board();
    let target = place_target(n);
    assert!(at(nb, q) == (if q == target { Some((t, side)) } else { at(&pb, q) }), "C09: the piece goes to the next free home square, nothing else changes");
    assert!(wf_place(nb, n + 1), "C09/C10: setup invariant preserved");
    let piece_val = crate::zobrist::verif::pv(target, t, side);
    if n + 1 == 32 {
        assert!(ns.is_play_phase() && ns.is_p1_turn_to_move() && ns.move_number() == 2, "C09: play starts with Gold, move 2");
        let np = ns.unwrap_play_phase();
        assert!(ns.current_step() == 0 && np.push_pull_state() == PushPullState::None && !np.piece_trapped_this_turn(), "C09: step 0, nothing pending");
        let want_hash = hash ^ piece_val ^ PLAYER_TO_MOVE ^ STEP_VALUES[0];
        assert!(raw(&ns.hash) == want_hash, "C08: hash after the last placement");
        assert!(raw(&np.initial_hash_of_move) == want_hash && np.hash_history().len() == 1 && np.hash_history().head().map(|z| raw(z)) == Some(want_hash), "C05/C08: history starts with the first play position");
    } else {
        assert!(!ns.is_play_phase() && ns.move_number() == 1, "C09: still setup, move 1");
        assert!(ns.is_p1_turn_to_move() == place_mover(n + 1), "C09: Silver is on move after Gold's sixteenth placement");
        let want_hash = hash ^ piece_val ^ (if n + 1 == 16 { PLAYER_TO_MOVE } else { 0 });
        assert!(raw(&ns.hash) == want_hash, "C08: hash after a placement");
    }
}
// @obl props=C09,C10,C19 tier=quick kind=harness-contract mem=2 est=5
// @fns GameState::initial PieceBoard::initial Zobrist::initial
// @clause GameState::initial(): empty board satisfying wf_place(0), Gold to move, move 1, setup phase, hash == INITIAL
#[kani::proof]
fn c09_initial() {
    let gs = GameState::initial();
    kani::cover!(true);
    assert!(wf_place(gs.piece_board(), 0) && gs.is_p1_turn_to_move() && gs.move_number() == 1 && !gs.is_play_phase());
    assert!(raw(&gs.hash) == INITIAL && gs.transposition_hash() == INITIAL);
}
// ===========================================================================
// C06 / C07: the repetition filter.  One obligation per function, each against its callees'
// contracts only (anything coarser does not fit in memory, DESIGN section 3).
// ===========================================================================
fn passing_like(step: usize) {
    let side: bool = kani::any();
    let pb = any_wf_board();
    let st = any_status();
    let (hash, init): (u64, u64) = (kani::any(), kani::any());
    let gs = play_state_h(&pb, side, step, st, kani::any(), hash, init, 2);
    let pbv: u64 = kani::any();
    unsafe {
        PBV = pbv;
    }
    oracle_reset();
    let a = mv(any_sq(), any_direction());
    kani::cover!(true);
    let got = gs.is_passing_like_action(&a);
    // hash of the position the step leads to, at step 0, with the mover still / no longer on move
    let h0_same_side = hash ^ pbv ^ STEP_VALUES[step] ^ STEP_VALUES[0];
    let h0_other_side = h0_same_side ^ PLAYER_TO_MOVE;
    let want = h0_same_side == init || twice(h0_other_side);
    assert!(got == want, "C06: a step is passing-like <=> result hashes like the turn's starting position, or the result with the other side to move already occurred twice (oracle)");
    assert!(oracle_ok());
    assert!(!gs.is_passing_like_action(&Action::Pass) && !gs.is_passing_like_action(&Action::Place(any_piece())), "C06: only steps are examined here (Pass is decided by can_pass)");
}
// @obl props=C06,C05,C07,C19 tier=quick kind=harness-contract mem=4 est=60
// @fns GameState::is_passing_like_action PieceBoard::take_action Zobrist::move_piece step_value
// @clause step 3 (the only step at which its callers use it), all boards/sides/statuses/hashes/oracles, every Move: result <=> (hash ^ delta ^ STEP[3] ^ STEP[0] == initial_hash_of_move) || TWICE(that ^ PLAYER_TO_MOVE); delta = piece_board_value(old, new) ghost (contract: Verus); Pass/Place => false
#[kani::proof]
#[kani::unwind(6)]
#[kani::stub(crate::zobrist::piece_board_value, pbv_ghost)]
#[kani::stub(crate::engine::hash_history_contains_hash_twice, twice_oracle)]
fn c06_is_passing_like_3() {
    passing_like(3);
}

// an uninterpreted predicate over actions ("is passing-like"), as the contract of is_passing_like_action seen by its callers
pub static mut PL_MASK: [u64; 4] = [0; 4];
pub static mut PL_PASS: bool = false;
pub fn pl_abs(a: &Action) -> bool {
    unsafe {
        match a {
            Action::Move(s, d) => bit(PL_MASK[dir_ord(*d) as usize], s.index() as u8),
            Action::Pass => PL_PASS,
            Action::Place(_) => false,
        }
    }
}
pub fn pl_abs_stub(_gs: &GameState, a: &Action) -> bool {
    pl_abs(a)
}
pub fn pl_reset() {
    unsafe {
        PL_MASK = [kani::any(), kani::any(), kani::any(), kani::any()];
        PL_PASS = kani::any();
    }
}
pub fn any_action() -> Action {
    if kani::any() {
        Action::Pass
    } else {
        mv(any_sq(), any_direction())
    }
}
fn filter_case(len: usize) {
    let step: usize = kani::any();
    kani::assume(step <= 3);
    let trapped: bool = kani::any();
    let pb = any_board_raw();
    let gs = play_state_h(&pb, kani::any(), step, any_status(), trapped, kani::any(), kani::any(), 2);
    pl_reset();
    let src = [any_action(), any_action(), any_action()];
    let mut v: Vec<Action> = Vec::with_capacity(4);
    let mut k = 0;
    while k < 3 {
        if k < len {
            v.push(src[k]);
        }
        k += 1;
    }
    kani::cover!(step == 3 && !trapped);
    let copy_for_query: Vec<Action> = v.clone();
    gs.remove_passing_like_actions(&mut v);
    let active = step == 3 && !trapped;
    // expected: the elements a with !(active && pl(a)), in the original order
    let mut j = 0;
    let mut ok = true;
    k = 0;
    while k < 3 {
        if k < len && !(active && pl_abs(&src[k])) {
            ok = ok && j < v.len() && v[j] == src[k];
            j += 1;
        }
        k += 1;
    }
    assert!(ok && j == v.len(), "C06: the filter removes exactly the passing-like actions, keeps the order, and only on the fourth step of a capture-free turn");
    // C07: the short-circuit twin agrees with the filter on the same list
    let h = gs.has_non_passing_like_action(copy_for_query);
    assert!(h == (v.len() > 0), "C07: has_non_passing_like_action(list) <=> the filtered list is non-empty");
}
// @obl props=C05,C06,C07,C19 tier=quick kind=harness-contract mem=6 est=120 timeout=1500
// @fns GameState::remove_passing_like_actions GameState::has_non_passing_like_action
// @clause lists of length 0..3 of symbolic actions (A1 generalises over the length), is_passing_like_action abstracted to an uninterpreted predicate P (its contract: c06_is_passing_like_3), all steps / capture flags: the filter keeps exactly [a | !(step==3 && !captured_this_turn && P(a))] in order; has_non_passing_like_action(list) <=> that filtered list is non-empty
#[kani::proof]
#[kani::unwind(6)]
#[kani::stub(GameState::is_passing_like_action, pl_abs_stub)]
fn c06_filter() {
    filter_case(0);
    filter_case(1);
    filter_case(2);
    filter_case(3);
}
// ===========================================================================
// valid_actions_ / has_move / is_terminal: the composition layer.  The four generators are
// replaced by abstractions of their contracts: each appends a harness-chosen (symbolic) list of
// 0..2 actions; is_passing_like_action is the uninterpreted predicate P; can_pass is a ghost
// function of its flag.  What is then proved about the real bodies is their own logic.
// ===========================================================================
pub static mut G_PUSH: Option<Action> = None;
pub static mut G_PULL: Option<Action> = None;
pub static mut G_STEP: Option<Action> = None;
pub static mut G_COMP: Option<Action> = None;
pub static mut CP_RULES: bool = false; // can_pass(false)
pub static mut CP_REP: bool = false; // can_pass(true)
// The abstractions never WRITE ghost state (measured: writes to `static mut` inside a stub, between several
// Vec lifetimes, make CBMC report spurious pointer failures inside Vec).  Call order is observed through the
// order of the produced list; the filter abstraction leaves a marker at the end of the list it was given.
pub const FILTER_MARK: Action = Action::Place(Piece::Rabbit);
pub fn q_filter(_gs: &GameState, v: &mut Vec<Action>) {
    v.push(FILTER_MARK);
}
/// contract c01_gen_pull / c01_gen_pull_dedup: appends a completion only if it is not already listed
pub fn q_pull_dedup(_gs: &GameState, v: &mut Vec<Action>, _pb: &PieceBoardState) {
    if let Some(a) = unsafe { G_PULL } {
        let mut listed = false;
        let mut k = 0;
        while k < 2 {
            if k < v.len() && v[k] == a {
                listed = true;
            }
            k += 1;
        }
        if !listed {
            v.push(a);
        }
    }
}
pub fn q_push(_gs: &GameState, v: &mut Vec<Action>, _pb: &PieceBoardState) {
    if let Some(a) = unsafe { G_PUSH } {
        v.push(a);
    }
}
pub fn q_pull(_gs: &GameState, v: &mut Vec<Action>, _pb: &PieceBoardState) {
    if let Some(a) = unsafe { G_PULL } {
        v.push(a); // has_move hands every generator a fresh list, so nothing can be listed already
    }
}
pub fn q_steps(_gs: &GameState, v: &mut Vec<Action>, _pb: &PieceBoardState) {
    if let Some(a) = unsafe { G_STEP } {
        v.push(a);
    }
}
pub fn q_completion(_gs: &GameState, _pb: &PieceBoardState) -> Vec<Action> {
    let mut v = Vec::with_capacity(4);
    if let Some(a) = unsafe { G_COMP } {
        v.push(a);
    }
    v
}
pub fn abs_can_pass(_gs: &GameState, check: bool) -> bool {
    unsafe {
        if check {
            CP_REP
        } else {
            CP_RULES
        }
    }
}
fn any_opt_move() -> Option<Action> {
    if kani::any() {
        Some(mv(any_sq(), any_direction()))
    } else {
        None
    }
}
fn g_reset() {
    unsafe {
        G_PUSH = any_opt_move();
        G_PULL = any_opt_move();
        G_STEP = any_opt_move();
        G_COMP = any_opt_move();
        CP_RULES = kani::any();
        CP_REP = kani::any();
        // the generators' own contracts: push starts / pull completions (enemy piece on the source square) and own
        // steps (own piece) are disjoint; a pending push has at least one completion (c01_gen_push_completion)
        kani::assume(G_STEP.is_none() || (G_PUSH != G_STEP && G_PULL != G_STEP));
        kani::assume(G_COMP.is_some());
    }
}
/// expected rule-only list, given the abstract generator outputs
fn expected_rule_list(pending: bool, pass: bool) -> Vec<Action> {
    let mut e: Vec<Action> = Vec::with_capacity(8);
    unsafe {
        if pending {
            if let Some(a) = G_COMP {
                e.push(a);
            }
        } else {
            if let Some(a) = G_PUSH {
                e.push(a);
            }
            if let Some(a) = G_PULL {
                if G_PUSH != Some(a) {
                    e.push(a);
                }
            }
            if let Some(a) = G_STEP {
                e.push(a);
            }
            if pass {
                e.push(Action::Pass);
            }
        }
    }
    e
}
fn lists_equal(a: &[Action], b: &[Action]) -> bool {
    if a.len() != b.len() {
        return false;
    }
    let mut ok = true;
    let mut k = 0;
    while k < 4 {
        if k < a.len() {
            ok = ok && a[k] == b[k];
        }
        k += 1;
    }
    if a.len() == 5 {
        ok = ok && a[4] == b[4];
    }
    ok && a.len() <= 5
}
fn no_dups(a: &[Action]) -> bool {
    let mut ok = true;
    let mut k = 0;
    while k < 4 {
        let mut l = 0;
        while l < 4 {
            if k < l && l < a.len() {
                ok = ok && a[k] != a[l];
            }
            l += 1;
        }
        k += 1;
    }
    ok
}

// @obl props=C01,C02,C06,C07,C10,C12,C13,C19 tier=quick kind=harness-contract mem=8 est=200 timeout=1800
// @fns GameState::valid_actions_ GameState::valid_actions_no_rep GameState::valid_actions
// @clause assembly, fully modular: the four generators, can_pass and remove_passing_like_actions are replaced by abstractions of their contracts (0..1 symbolic action each, disjointness as proved; the filter abstraction appends a marker to the list it is given); both flag values, all statuses: the list is, as a set, completions when a push is pending, else push starts + pull completions not already listed + own steps + [Pass iff can_pass(flag)], nothing twice; with repetition checking the filter is invoked exactly once, last, on the whole list, never without; apart from Pass both flag values give the same sequence
#[kani::proof]
#[kani::unwind(14)]
#[kani::stub(GameState::extend_with_push_piece_actions, q_push)]
#[kani::stub(GameState::extend_with_pull_piece_actions, q_pull_dedup)]
#[kani::stub(GameState::extend_with_valid_curr_player_piece_moves, q_steps)]
#[kani::stub(GameState::must_complete_push_actions, q_completion)]
#[kani::stub(GameState::can_pass, abs_can_pass)]
#[kani::stub(GameState::remove_passing_like_actions, q_filter)]
fn c01_assembly() {
    let pb = any_board_raw();
    let st = any_status();
    let gs = play_state_h(&pb, kani::any(), 1, st, kani::any(), kani::any(), kani::any(), 2);
    g_reset();
    let check: bool = kani::any();
    let pending = matches!(st, PushPullState::MustCompletePush(_, _));
    kani::cover!(pending && check);
    kani::cover!(!pending && !check && unsafe { G_PULL.is_some() && G_PULL == G_PUSH }, "a pull completion that is also a push start");
    kani::cover!(!pending && unsafe { G_PUSH.is_some() && G_PULL.is_some() && G_STEP.is_some() && G_PUSH != G_PULL }, "all three generators contribute");
    let mut got = gs.valid_actions_(check);
    if check {
        assert!(got.len() >= 1 && got[got.len() - 1] == FILTER_MARK, "C06: with repetition checking the filter runs last, on the whole list");
        got.pop();
    }
    assert!(count_in(&got, &FILTER_MARK) == 0, "C06: the filter runs exactly once with repetition checking and never without");
    // content as a set: no property fixes the order of the categories
    let want = expected_rule_list(pending, unsafe { if check { CP_REP } else { CP_RULES } });
    assert!(no_dups(&want));
    assert!(same_set(&got, &want) && no_dups(&got), "C01: list == completions | push starts + pull completions not already listed + own steps + [Pass iff can_pass(flag)], nothing twice");
}
// @obl props=C06,C19 tier=quick kind=harness-contract mem=10 est=120 timeout=1800
// @fns GameState::valid_actions_
// @clause same abstraction, no push pending, all three generators contributing (the only case in which an order exists to differ): valid_actions_(false) and the list valid_actions_(true) hands to the filter start with the same three actions in the same order (C06 "in the same order"); Pass, when present, is last by c01_assembly's marker argument
#[kani::proof]
#[kani::unwind(14)]
#[kani::stub(GameState::extend_with_push_piece_actions, q_push)]
#[kani::stub(GameState::extend_with_pull_piece_actions, q_pull_dedup)]
#[kani::stub(GameState::extend_with_valid_curr_player_piece_moves, q_steps)]
#[kani::stub(GameState::must_complete_push_actions, q_completion)]
#[kani::stub(GameState::can_pass, abs_can_pass)]
#[kani::stub(GameState::remove_passing_like_actions, q_filter)]
fn c06_assembly_order() {
    let pb = any_board_raw();
    // order can only differ when several generators contribute: no push pending, all three generators produce an action
    let gs = play_state_h(&pb, kani::any(), 1, PushPullState::None, kani::any(), kani::any(), kani::any(), 2);
    g_reset();
    unsafe {
        kani::assume(G_PUSH.is_some() && G_PULL.is_some() && G_STEP.is_some() && G_PUSH != G_PULL);
    }
    kani::cover!(true);
    let plain = gs.valid_actions_(false);
    let with_rep = gs.valid_actions_(true);
    assert!(plain.len() >= 3 && with_rep.len() >= 4, "three generator outputs (+ filter marker)");
    assert!(plain[0] == with_rep[0] && plain[1] == with_rep[1] && plain[2] == with_rep[2], "C06: the rule-only list and the list handed to the filter are in the same order");
}
fn count_in(v: &[Action], a: &Action) -> usize {
    let mut n = 0;
    let mut k = 0;
    while k < 6 {
        if k < v.len() && v[k] == *a {
            n += 1;
        }
        k += 1;
    }
    n
}
fn same_set(a: &[Action], b: &[Action]) -> bool {
    if a.len() != b.len() || a.len() > 5 {
        return false;
    }
    let mut ok = true;
    let mut k = 0;
    while k < 5 {
        if k < a.len() {
            ok = ok && count_in(b, &a[k]) == count_in(a, &a[k]);
        }
        k += 1;
    }
    ok
}
fn same_sequence_without_pass(a: &[Action], b: &[Action]) -> bool {
    let (mut i, mut j) = (0, 0);
    let mut ok = true;
    let mut guard = 0;
    while guard < 12 {
        if i < a.len() && a[i] == Action::Pass {
            i += 1;
        } else if j < b.len() && b[j] == Action::Pass {
            j += 1;
        } else if i < a.len() && j < b.len() {
            ok = ok && a[i] == b[j];
            i += 1;
            j += 1;
        }
        guard += 1;
    }
    ok && i == a.len() && j == b.len()
}

fn survives(active: bool, a: Option<Action>) -> bool {
    match a {
        Some(x) => !(active && pl_abs(&x)),
        None => false,
    }
}
fn has_move_case(step: usize) {
    let pb = any_board_raw();
    let st = any_status();
    let side: bool = kani::any();
    let trapped: bool = kani::any();
    let gs = play_state_h(&pb, side, step, st, trapped, kani::any(), kani::any(), 2);
    g_reset();
    pl_reset();
    let active = step == 3 && !trapped;
    let pending = matches!(st, PushPullState::MustCompletePush(_, _));
    kani::cover!(pending);
    let hm = gs.has_move(&pb);
    let some_action = unsafe {
        if pending {
            survives(active, G_COMP)
        } else {
            CP_REP || survives(active, G_STEP) || survives(active, G_PULL) || survives(active, G_PUSH)
        }
    };
    kani::cover!(!some_action && !pending);
    assert!(hm.is_none() == some_action, "C07: has_move reports a loss exactly when no offered action exists");
    if let Some(t) = hm {
        assert!(t == winner(!side), "C07: ... and it is a loss for the player on move");
    }
}
// @obl props=C07,C04,C19 tier=quick kind=harness-contract mem=8 est=200 timeout=1800
// @fns GameState::has_move GameState::has_non_passing_like_action
// @clause has_move's own logic, modular (generators and can_pass replaced by abstractions of their contracts; is_passing_like_action = uninterpreted P; steps 0, 1 and 3, capture flag symbolic, all statuses, both sides): result is None <=> (push pending ? some completion survives the filter : can_pass(true) || some own step survives || some pull completion survives || some push start survives) -- exactly "valid_actions() is non-empty" by c01_assembly + c06_filter; otherwise Some(win for the opponent of the player on move); in setup: None
#[kani::proof]
#[kani::unwind(8)]
#[kani::stub(GameState::extend_with_push_piece_actions, q_push)]
#[kani::stub(GameState::extend_with_pull_piece_actions, q_pull)]
#[kani::stub(GameState::extend_with_valid_curr_player_piece_moves, q_steps)]
#[kani::stub(GameState::must_complete_push_actions, q_completion)]
#[kani::stub(GameState::can_pass, abs_can_pass)]
#[kani::stub(GameState::is_passing_like_action, pl_abs_stub)]
fn c07_has_move() {
    has_move_case(3);
    has_move_case(1);
    has_move_case(0);
    let pb = any_board_raw();
    let setup = GameState::new(kani::any(), 1, Phase::PlacePhase, PieceBoard(pb.clone()), zob(kani::any()));
    assert!(setup.has_move(&pb).is_none(), "C07: setup always has a move");
}

// A WRITE-FREE realisation of the history oracle for harnesses that also hold several `Vec`s (a memo table written inside a
// stub body makes CBMC report spurious dealloc failures there, DESIGN 12.4 no. 1): three symbolic (key, answer) pairs and a
// symbolic default, all chosen before the call.  For every run that queries at most four distinct keys this ranges over every
// boolean function of the queried keys, so it is as general as the memoising oracle.
pub static mut TW_K: [u64; 3] = [0; 3];
pub static mut TW_V: [bool; 3] = [false; 3];
pub static mut TW_D: bool = false;
pub fn twice_pure(k: u64) -> bool {
    unsafe {
        if k == TW_K[0] {
            TW_V[0]
        } else if k == TW_K[1] {
            TW_V[1]
        } else if k == TW_K[2] {
            TW_V[2]
        } else {
            TW_D
        }
    }
}
pub fn twice_pure_oracle(_history: &List<Zobrist>, h: &Zobrist) -> bool {
    twice_pure(raw(h))
}
fn twice_pure_reset() {
    unsafe {
        TW_K = [kani::any(), kani::any(), kani::any()];
        TW_V = [kani::any(), kani::any(), kani::any()];
        TW_D = kani::any();
    }
}
fn has_move_oracle_case(which: u8) {
    let pb = any_wf_board();
    let st = any_status();
    let side: bool = kani::any();
    let trapped: bool = kani::any();
    let (hash, init): (u64, u64) = (kani::any(), kani::any());
    let gs = play_state_h(&pb, side, 3, st, trapped, hash, init, 2);
    g_reset();
    // one generator at a time (concrete `which`): 0 = pending push with its completion list, 1 = own steps, 2 = push starts, 3 = pull completions
    unsafe {
        if which != 1 {
            G_STEP = None;
        }
        if which != 2 {
            G_PUSH = None;
        }
        if which != 3 {
            G_PULL = None;
        }
    }
    let pbv: u64 = kani::any();
    unsafe {
        PBV = pbv;
    }
    twice_pure_reset();
    let pending = matches!(st, PushPullState::MustCompletePush(_, _));
    kani::assume(pending == (which == 0));
    kani::cover!(!trapped);
    let hm = gs.has_move(&pb);
    // every generated step leads (ghost delta) to the same turn-start hash of the next turn
    let h0_same_side = hash ^ pbv ^ STEP_VALUES[3] ^ STEP_VALUES[0];
    let passing_like = h0_same_side == init || twice_pure(h0_same_side ^ PLAYER_TO_MOVE);
    let step_survives = trapped || !passing_like;
    let some_action = unsafe {
        if pending {
            G_COMP.is_some() && step_survives
        } else {
            CP_REP || ((G_STEP.is_some() || G_PULL.is_some() || G_PUSH.is_some()) && step_survives)
        }
    };
    kani::cover!(!some_action);
    kani::cover!(some_action && passing_like);
    assert!(hm.is_none() == some_action, "C07: at the fourth step has_move reports a loss exactly when every offered action is withheld by the repetition rules (same predicate as the list side)");
    if let Some(t) = hm {
        assert!(t == winner(!side), "C07: ... and it is a loss for the player on move");
    }
}


// @obl props=C07,C06,C04,C19 tier=quick kind=harness-contract mem=8 est=120 timeout=1800
// @fns GameState::has_move GameState::has_non_passing_like_action GameState::is_passing_like_action
// @clause [case: a push is pending: the completion list] has_move at step 3 with the REAL has_non_passing_like_action and the REAL is_passing_like_action underneath it (only the generators, can_pass, the board-hash delta (ghost, Verus contract) and the history oracle are abstracted; nothing here names a private signature below has_move except those): result is None <=> (push pending ? some completion : can_pass(true) || some generated step) whose result neither hashes like the turn start nor has its other-side hash already twice in the history (the same two-disjunct predicate c06_is_passing_like_3 proves for the list side), the filter being off after a capture this turn. Added after seeded/C07e (a history lookup hoisted out of has_move's side only), which changed is_passing_like_action's signature and thereby left c07_has_move undecided.
#[kani::proof]
#[kani::unwind(8)]
#[kani::stub(GameState::extend_with_push_piece_actions, q_push)]
#[kani::stub(GameState::extend_with_pull_piece_actions, q_pull)]
#[kani::stub(GameState::extend_with_valid_curr_player_piece_moves, q_steps)]
#[kani::stub(GameState::must_complete_push_actions, q_completion)]
#[kani::stub(GameState::can_pass, abs_can_pass)]
#[kani::stub(crate::zobrist::piece_board_value, pbv_ghost)]
#[kani::stub(crate::engine::hash_history_contains_hash_twice, twice_pure_oracle)]
fn c07_has_move_oracle_3_comp() {
    has_move_oracle_case(0);
}
// @obl props=C07,C06,C04,C19 tier=quick kind=harness-contract mem=8 est=120 timeout=1800
// @fns GameState::has_move GameState::has_non_passing_like_action GameState::is_passing_like_action
// @clause [case: no push pending, own steps only] has_move at step 3 with the REAL has_non_passing_like_action and the REAL is_passing_like_action underneath it (only the generators, can_pass, the board-hash delta (ghost, Verus contract) and the history oracle are abstracted; nothing here names a private signature below has_move except those): result is None <=> (push pending ? some completion : can_pass(true) || some generated step) whose result neither hashes like the turn start nor has its other-side hash already twice in the history (the same two-disjunct predicate c06_is_passing_like_3 proves for the list side), the filter being off after a capture this turn. Added after seeded/C07e (a history lookup hoisted out of has_move's side only), which changed is_passing_like_action's signature and thereby left c07_has_move undecided.
#[kani::proof]
#[kani::unwind(8)]
#[kani::stub(GameState::extend_with_push_piece_actions, q_push)]
#[kani::stub(GameState::extend_with_pull_piece_actions, q_pull)]
#[kani::stub(GameState::extend_with_valid_curr_player_piece_moves, q_steps)]
#[kani::stub(GameState::must_complete_push_actions, q_completion)]
#[kani::stub(GameState::can_pass, abs_can_pass)]
#[kani::stub(crate::zobrist::piece_board_value, pbv_ghost)]
#[kani::stub(crate::engine::hash_history_contains_hash_twice, twice_pure_oracle)]
fn c07_has_move_oracle_3_step() {
    has_move_oracle_case(1);
}
// @obl props=C07,C06,C04,C19 tier=quick kind=harness-contract mem=8 est=120 timeout=1800
// @fns GameState::has_move GameState::has_non_passing_like_action GameState::is_passing_like_action
// @clause [case: no push pending, push starts only] has_move at step 3 with the REAL has_non_passing_like_action and the REAL is_passing_like_action underneath it (only the generators, can_pass, the board-hash delta (ghost, Verus contract) and the history oracle are abstracted; nothing here names a private signature below has_move except those): result is None <=> (push pending ? some completion : can_pass(true) || some generated step) whose result neither hashes like the turn start nor has its other-side hash already twice in the history (the same two-disjunct predicate c06_is_passing_like_3 proves for the list side), the filter being off after a capture this turn. Added after seeded/C07e (a history lookup hoisted out of has_move's side only), which changed is_passing_like_action's signature and thereby left c07_has_move undecided.
#[kani::proof]
#[kani::unwind(8)]
#[kani::stub(GameState::extend_with_push_piece_actions, q_push)]
#[kani::stub(GameState::extend_with_pull_piece_actions, q_pull)]
#[kani::stub(GameState::extend_with_valid_curr_player_piece_moves, q_steps)]
#[kani::stub(GameState::must_complete_push_actions, q_completion)]
#[kani::stub(GameState::can_pass, abs_can_pass)]
#[kani::stub(crate::zobrist::piece_board_value, pbv_ghost)]
#[kani::stub(crate::engine::hash_history_contains_hash_twice, twice_pure_oracle)]
fn c07_has_move_oracle_3_push() {
    has_move_oracle_case(2);
}
// @obl props=C07,C06,C04,C19 tier=quick kind=harness-contract mem=8 est=120 timeout=1800
// @fns GameState::has_move GameState::has_non_passing_like_action GameState::is_passing_like_action
// @clause [case: no push pending, pull completions only] has_move at step 3 with the REAL has_non_passing_like_action and the REAL is_passing_like_action underneath it (only the generators, can_pass, the board-hash delta (ghost, Verus contract) and the history oracle are abstracted; nothing here names a private signature below has_move except those): result is None <=> (push pending ? some completion : can_pass(true) || some generated step) whose result neither hashes like the turn start nor has its other-side hash already twice in the history (the same two-disjunct predicate c06_is_passing_like_3 proves for the list side), the filter being off after a capture this turn. Added after seeded/C07e (a history lookup hoisted out of has_move's side only), which changed is_passing_like_action's signature and thereby left c07_has_move undecided.
#[kani::proof]
#[kani::unwind(8)]
#[kani::stub(GameState::extend_with_push_piece_actions, q_push)]
#[kani::stub(GameState::extend_with_pull_piece_actions, q_pull)]
#[kani::stub(GameState::extend_with_valid_curr_player_piece_moves, q_steps)]
#[kani::stub(GameState::must_complete_push_actions, q_completion)]
#[kani::stub(GameState::can_pass, abs_can_pass)]
#[kani::stub(crate::zobrist::piece_board_value, pbv_ghost)]
#[kani::stub(crate::engine::hash_history_contains_hash_twice, twice_pure_oracle)]
fn c07_has_move_oracle_3_pull() {
    has_move_oracle_case(3);
}
// ===========================================================================
// C04  is_terminal: the official order.  Composition against the callee contracts:
// rabbit_at_goal / lost_all_rabbits are replaced by the spec functions their in-place
// contracts (k_rabbit_at_goal, k_lost_all_rabbits) prove them equal to; has_move by a ghost
// value constrained as c07_has_move proves.
// ===========================================================================
pub static mut HM_HAS_ACTION: bool = false;
pub fn spec_goal_stub(gs: &GameState, pb: &PieceBoardState) -> Option<Terminal> {
    goal_spec(pb, gs.is_p1_turn_to_move())
}
pub fn spec_elim_stub(gs: &GameState, pb: &PieceBoardState) -> Option<Terminal> {
    elimination_spec(pb, gs.is_p1_turn_to_move())
}
pub fn spec_has_move_stub(gs: &GameState, _pb: &PieceBoardState) -> Option<Terminal> {
    if unsafe { HM_HAS_ACTION } {
        None
    } else {
        Some(winner(!gs.is_p1_turn_to_move()))
    }
}
fn terminal_case(step: usize) {
    let pb = any_wf_board();
    let side: bool = kani::any();
    let gs = play_state(&pb, side, step, any_status());
    unsafe {
        HM_HAS_ACTION = kani::any();
    }
    let has_action = unsafe { HM_HAS_ACTION };
    let got = gs.is_terminal();
    if step == 0 {
        kani::cover!(rabbit_on_goal(&pb, side) && rabbit_on_goal(&pb, !side), "both sides have a rabbit on goal");
        kani::cover!(!has_rabbit(&pb, side) && !has_rabbit(&pb, !side), "both sides lost all rabbits");
        let want = terminal_order(
            rabbit_on_goal(&pb, !side),
            rabbit_on_goal(&pb, side),
            has_rabbit(&pb, side),
            has_rabbit(&pb, !side),
            has_action,
            side,
        );
        assert!(got == want, "C04: result at turn start follows the official order (goal of last mover, goal of mover, elimination of mover, elimination of last mover, immobilisation)");
    } else {
        kani::cover!(rabbit_on_goal(&pb, side), "mid-turn with a rabbit on goal");
        assert!(got == (if has_action { None } else { Some(winner(!side)) }), "C04/C07: mid-turn a result is reported exactly when no action is offered, and it is a loss for the mover; goal and elimination are not consulted");
    }
}
// @obl props=C04,C07,C19 tier=quick kind=harness-contract mem=6 est=120 timeout=1500
// @fns GameState::is_terminal GameState::as_play_phase
// @clause requires board_wf. callees replaced by their contracts (goal_spec, elimination_spec, has_move == None <=> an action is offered). ensures step 0: is_terminal == terminal_order (six-line official order, last mover first); step 1..3: is_terminal == has_move result only; setup: None
#[kani::proof]
#[kani::unwind(6)]
#[kani::stub(GameState::rabbit_at_goal, spec_goal_stub)]
#[kani::stub(GameState::lost_all_rabbits, spec_elim_stub)]
#[kani::stub(GameState::has_move, spec_has_move_stub)]
fn c04_is_terminal() {
    terminal_case(0);
    terminal_case(2);
    let pb = any_board_raw();
    let setup = GameState::new(kani::any(), 1, Phase::PlacePhase, PieceBoard(pb.clone()), zob(kani::any()));
    assert!(setup.is_terminal().is_none(), "C04: no result during setup, whatever the board");
}
// ===========================================================================
// C08 / C17: what the state exposes of its hash
// ===========================================================================
struct RecHasher {
    words: u64,
    last: u64,
}
impl Hasher for RecHasher {
    fn finish(&self) -> u64 {
        self.last
    }
    fn write(&mut self, _bytes: &[u8]) {
        self.words += 100; // any byte-wise write would be something other than the one u64 we expect
    }
    fn write_u64(&mut self, x: u64) {
        self.words += 1;
        self.last = x;
    }
}
// @obl props=C08,C17,C19 tier=quick kind=harness-contract mem=3 est=30
// @fns GameState::transposition_hash Zobrist::board_state_hash_with_push_pull_state Zobrist::board_state_hash GameState::eq GameState::hash
// @clause forall states: transposition_hash == hash ^ pp_value(status) in play (pp_value(None)==0, push/pull table value otherwise; requires the status invariant: no pushed elephant / pulling rabbit) and == hash in setup; s1 == s2 <=> their board-state hashes are equal; Hash feeds exactly that one u64
#[kani::proof]
#[kani::unwind(6)]
fn c08_exposed_hash() {
    exposed_hash_case(0);
    exposed_hash_case(1);
    exposed_hash_case(2);
    exposed_hash_case(3);
}
fn exposed_hash_case(step: usize) {
    let pb = any_board_raw();
    let st = any_status();
    kani::assume(step > 0 || matches!(st, PushPullState::None));
    match st {
        PushPullState::MustCompletePush(_, p) => kani::assume(p != Piece::Elephant),
        PushPullState::PossiblePull(_, p) => kani::assume(p != Piece::Rabbit),
        _ => {}
    }
    let (h1, h2): (u64, u64) = (kani::any(), kani::any());
    let a = play_state_h(&pb, kani::any(), step, st, kani::any(), h1, kani::any(), 2);
    let b = play_state_h(&any_board_raw(), kani::any(), 2, any_status(), kani::any(), h2, kani::any(), 7);
    kani::cover!(h1 == h2);
    kani::cover!(step == 0 || matches!(st, PushPullState::PossiblePull(_, _)));
    assert!(a.transposition_hash() == h1 ^ crate::zobrist::verif::pp_value(st), "C08/C17: transposition hash == board/side/step hash ^ push-pull value, at every step");
    let setup = GameState::new(kani::any(), 1, Phase::PlacePhase, PieceBoard(pb.clone()), zob(h1));
    assert!(setup.transposition_hash() == h1, "C08: setup-phase hash");
    assert!((a == b) == (h1 == h2), "C08: states compare equal exactly when their board/side/step hashes are equal");
    let mut rh = RecHasher { words: 0, last: 0 };
    a.hash(&mut rh);
    assert!(rh.words == 1 && rh.last == h1, "C08: Hash feeds exactly the board/side/step hash");
}
// ===========================================================================
// C10: all views of the board agree
// ===========================================================================
// @obl props=C10,C08,C19 tier=quick kind=harness-contract mem=3 est=20
// @fns PieceBoardState::bits_for_piece PieceBoardState::player_piece_mask PieceBoardState::bits_by_piece_type PieceBoardState::piece_type_at_square PieceBoard::new PieceBoard::initial PieceBoard::piece_board
// @clause requires board_wf ensures per square i: bits_for_piece(p,g) has bit i <=> at(i)==(p,g); player_piece_mask(g) <=> owner g; bits_by_piece_type(p) <=> type p; piece_type_at_square == type of at(i); board_wf <=> every square holds at most one type, all_pieces is the union, owners only on occupied squares (per-square restatement); PieceBoard::new derives all_pieces as the union and yields a board_wf board from disjoint type words; the empty board is board_wf
#[kani::proof]
fn c10_views_agree() {
    let pb = any_board_raw();
    let i = any_sq();
    let p = any_piece();
    let g: bool = kani::any();
    // board_wf in word form <=> per-square form (ties the invariant to the abstract view `at`)
    if board_wf(&pb) {
        assert!(board_wf_at(&pb, i), "C10: board_wf implies exactly one type and an owner only on occupied squares");
        kani::cover!(at(&pb, i) == Some((Piece::Dog, false)));
        let a = at(&pb, i);
        assert!(bit(pb.bits_for_piece(p, g), i) == (a == Some((p, g))), "C10: bits_for_piece");
        assert!(bit(pb.player_piece_mask(g), i) == match a { Some((_, o)) => o == g, None => false }, "C10: player_piece_mask");
        assert!(bit(pb.bits_by_piece_type(p), i) == match a { Some((t, _)) => t == p, None => false }, "C10: bits_by_piece_type");
        assert!(pb.piece_type_at_square(&sq(i)) == a.map(|(t, _)| t), "C10: piece_type_at_square");
        assert!(bit(pb.all_pieces, i) == a.is_some(), "C10: all_pieces is the occupancy");
    }
    let n = PieceBoard::new(pb.p1_pieces, pb.elephants, pb.camels, pb.horses, pb.dogs, pb.cats, pb.rabbits);
    let nb = n.piece_board();
    assert!(nb.all_pieces == (pb.elephants | pb.camels | pb.horses | pb.dogs | pb.cats | pb.rabbits), "C10: PieceBoard::new derives all_pieces as the union");
    assert!(nb.p1_pieces == pb.p1_pieces && nb.elephants == pb.elephants && nb.rabbits == pb.rabbits && nb.cats == pb.cats && nb.dogs == pb.dogs && nb.horses == pb.horses && nb.camels == pb.camels);
    assert!(board_wf(PieceBoard::initial().piece_board()) && PieceBoard::initial().piece_board().all_pieces == 0, "C10: the empty board");
}
// @obl props=C10,C02 tier=thorough kind=harness-contract mem=4 est=600 timeout=3000
// @fns PieceBoard::take_action
// @clause material: for every legal board, step onto an empty neighbour, type p and colour g: the number of (p,g) pieces after the step is <= the number before (so the per-side limits 1,1,2,2,2,8 established in setup are never exceeded), and strictly smaller for the captured piece's kind when the step captures
#[kani::proof]
fn c10_material_never_increases() {
    let pb = any_legal_board();
    let src = any_sq();
    let d = any_direction();
    kani::assume(at(&pb, src).is_some());
    let dst = match nbr(src, d) {
        Some(j) => j,
        None => {
            kani::assume(false);
            0
        }
    };
    kani::assume(at(&pb, dst).is_none());
    let p = any_piece();
    let g: bool = kani::any();
    kani::cover!(captures_any(&pb, src, dst));
    let (nb, flag) = PieceBoard(pb.clone()).take_action(&mv(src, d));
    assert!(count(&nb, p, g) <= count(&pb, p, g), "C10/C02: material never increases");
    assert!(nb.all_pieces.count_ones() + (if flag { 1 } else { 0 }) == pb.all_pieces.count_ones(), "C13/C05: a step removes exactly one piece when it captures, none otherwise");
}
// ===========================================================================
// C11: symmetry.  Relational (two-run) lemmas on the real functions, no rule oracle involved:
// f(sigma x) == sigma f(x) for sigma = file mirror (a<->h) and sigma = colour swap + rank flip (1<->8).
// sigma on boards is defined per square (vspec::mir_board / swap_board), not by a bit trick.
// ===========================================================================
#[derive(Clone, Copy)]
pub enum Sym {
    Mirror,
    Swap,
}
pub fn sym_sq(s: Sym, i: u8) -> u8 {
    match s {
        Sym::Mirror => mir_sq(i),
        Sym::Swap => flip_sq(i),
    }
}
pub fn sym_dir(s: Sym, d: Direction) -> Direction {
    match s {
        Sym::Mirror => mir_dir(d),
        Sym::Swap => flip_dir(d),
    }
}
pub fn sym_side(s: Sym, g: bool) -> bool {
    match s {
        Sym::Mirror => g,
        Sym::Swap => !g,
    }
}
pub fn sym_board(s: Sym, pb: &PieceBoardState) -> PieceBoardState {
    match s {
        Sym::Mirror => mir_board(pb),
        Sym::Swap => swap_board(pb),
    }
}
pub fn sym_status(s: Sym, st: PushPullState) -> PushPullState {
    match st {
        PushPullState::None => PushPullState::None,
        PushPullState::PossiblePull(q, p) => PushPullState::PossiblePull(sq(sym_sq(s, q.index() as u8)), p),
        PushPullState::MustCompletePush(q, p) => PushPullState::MustCompletePush(sq(sym_sq(s, q.index() as u8)), p),
    }
}
pub fn sym_terminal(s: Sym, t: Option<Terminal>) -> Option<Terminal> {
    match s {
        Sym::Mirror => t,
        Sym::Swap => swap_terminal(t),
    }
}
fn sym_lemma_view(s: Sym) {
    // sigma really is the geometric map on the abstract view: at(sigma pb, sigma i) == sigma at(pb, i)
    let pb = any_wf_board();
    let i = any_sq();
    let spb = sym_board(s, &pb);
    assert!(board_wf(&spb), "C11: sigma maps well-formed boards to well-formed boards");
    assert!(at(&spb, sym_sq(s, i)) == at(&pb, i).map(|(t, g)| (t, sym_side(s, g))), "C11: sigma on boards is the per-square map");
    assert!(sym_sq(s, sym_sq(s, i)) == i);
}
fn sym_board_step(s: Sym) {
    let pb = any_wf_board();
    let i = any_sq();
    let d = any_direction();
    let q = any_sq();
    // an offered step: an occupied square, an empty on-board neighbour
    kani::assume(at(&pb, i).is_some());
    match nbr(i, d) {
        Some(j) => kani::assume(at(&pb, j).is_none()),
        None => kani::assume(false),
    }
    kani::cover!(true);
    let (n1, f1) = PieceBoard(pb.clone()).take_action(&mv(i, d));
    let (n2, f2) = PieceBoard(sym_board(s, &pb)).take_action(&mv(sym_sq(s, i), sym_dir(s, d)));
    assert!(f1 == f2, "C11: captures map to captures");
    assert!(at(&n2, sym_sq(s, q)) == at(&n1, q).map(|(t, g)| (t, sym_side(s, g))), "C11: applying the mirrored step to the mirrored board gives the mirrored board");
    assert!(bit(sym_board(s, &pb).trapped_piece_bits(), sym_sq(s, q)) == bit(pb.trapped_piece_bits(), q), "C11: trapped pieces");
}
// @obl props=C11 tier=quick kind=lemma mem=6 est=200 timeout=1800
// @fns PieceBoard::take_action PieceBoardState::trapped_piece_bits
// @clause file mirror: sigma is the per-square map on the abstract view; take_action(sigma b, sigma a) == sigma take_action(b, a) per square, same capture flag; trapped_piece_bits commute (all well-formed boards, all steps)
#[kani::proof]
fn c11_mirror_board_step() {
    sym_lemma_view(Sym::Mirror);
    sym_board_step(Sym::Mirror);
}
// @obl props=C11 tier=quick kind=lemma mem=6 est=200 timeout=1800
// @fns PieceBoard::take_action PieceBoardState::trapped_piece_bits
// @clause colour swap + rank flip: same statement
#[kani::proof]
fn c11_swap_board_step() {
    sym_lemma_view(Sym::Swap);
    sym_board_step(Sym::Swap);
}
fn sym_masks(s: Sym) {
    let pb = any_wf_board();
    let side: bool = kani::any();
    let i = any_sq();
    let d = any_direction();
    let spb = sym_board(s, &pb);
    let g1 = lean_state(side);
    let g2 = lean_state(sym_side(s, side));
    let (si, sd) = (sym_sq(s, i), sym_dir(s, d));
    kani::cover!(true);
    assert!(bit(g2.curr_player_non_frozen_pieces(&spb), si) == bit(g1.curr_player_non_frozen_pieces(&pb), i), "C11: freezing");
    // the three masks the step generator combines
    let m1 = can_move_in_direction(&d, &pb) & g1.curr_player_non_frozen_pieces(&pb) & !g1.invalid_rabbit_moves(&d, &pb);
    let m2 = can_move_in_direction(&sd, &spb) & g2.curr_player_non_frozen_pieces(&spb) & !g2.invalid_rabbit_moves(&sd, &spb);
    assert!(bit(m2, si) == bit(m1, i), "C11: offered single steps map to offered single steps");
    // push starts
    let t1 = g1.threatened_pieces(g1.curr_player_non_frozen_pieces(&pb), g1.opponent_piece_mask(&pb), &pb) & can_move_in_direction(&d, &pb);
    let t2 = g2.threatened_pieces(g2.curr_player_non_frozen_pieces(&spb), g2.opponent_piece_mask(&spb), &spb) & can_move_in_direction(&sd, &spb);
    assert!(bit(t2, si) == bit(t1, i), "C11: offered push starts map to offered push starts");
    // results
    assert!(g2.rabbit_at_goal(&spb) == sym_terminal(s, g1.rabbit_at_goal(&pb)), "C11: goal results map to swapped results");
    assert!(g2.lost_all_rabbits(&spb) == sym_terminal(s, g1.lost_all_rabbits(&pb)), "C11: elimination results map to swapped results");
}
// @obl props=C11 tier=quick kind=lemma mem=6 est=200 timeout=1800
// @fns GameState::curr_player_non_frozen_pieces can_move_in_direction GameState::invalid_rabbit_moves GameState::threatened_pieces GameState::rabbit_at_goal GameState::lost_all_rabbits
// @clause file mirror: the freezing mask, the per-direction single-step mask and push-start mask (exactly the words the generators hand to the seam), and the goal / elimination results commute with sigma (all well-formed boards, both sides)
#[kani::proof]
fn c11_mirror_masks() {
    sym_masks(Sym::Mirror);
}
// @obl props=C11 tier=quick kind=lemma mem=6 est=200 timeout=1800
// @fns GameState::curr_player_non_frozen_pieces can_move_in_direction GameState::invalid_rabbit_moves GameState::threatened_pieces GameState::rabbit_at_goal GameState::lost_all_rabbits
// @clause colour swap + rank flip: same statement, with Gold and Silver exchanged in the results
#[kani::proof]
fn c11_swap_masks() {
    sym_masks(Sym::Swap);
}
fn sym_status_machine(s: Sym) {
    let pb = any_wf_board();
    let side: bool = kani::any();
    let st = any_status();
    let i = any_sq();
    let d = any_direction();
    kani::assume(wf_status(&pb, side, 1, pp_of(st)));
    kani::assume(offered_move(&pb, side, 1, pp_of(st), i, d));
    let spb = sym_board(s, &pb);
    let g1 = play_state(&pb, side, 1, st);
    let g2 = play_state(&spb, sym_side(s, side), 1, sym_status(s, st));
    kani::cover!(true);
    let r1 = g1.next_push_pull_state(&sq(i), &d);
    let r2 = g2.next_push_pull_state(&sq(sym_sq(s, i)), &sym_dir(s, d));
    assert!(r2 == sym_status(s, r1), "C11: the push/pull status machine commutes with sigma");
    let (j, e) = (any_sq(), any_direction());
    if matches!(st, PushPullState::MustCompletePush(_, _)) {
        let v1 = g1.must_complete_push_actions(&pb);
        let v2 = g2.must_complete_push_actions(&spb);
        assert!(has_move_in(&v2, sym_sq(s, j), sym_dir(s, e)) == has_move_in(&v1, j, e), "C11: push completions map to push completions");
    }
    let mut p1: Vec<Action> = Vec::with_capacity(8);
    let mut p2: Vec<Action> = Vec::with_capacity(8);
    g1.extend_with_pull_piece_actions(&mut p1, &pb);
    g2.extend_with_pull_piece_actions(&mut p2, &spb);
    assert!(has_move_in(&p2, sym_sq(s, j), sym_dir(s, e)) == has_move_in(&p1, j, e), "C11: pull completions map to pull completions");
}
// @obl props=C11 tier=quick kind=lemma mem=8 est=300 timeout=2400
// @fns GameState::next_push_pull_state GameState::must_complete_push_actions GameState::extend_with_pull_piece_actions
// @clause file mirror: next_push_pull_state, the push-completion list and the pull-completion list commute with sigma (membership of every (square, direction))
#[kani::proof]
#[kani::unwind(6)]
fn c11_mirror_status() {
    sym_status_machine(Sym::Mirror);
}
// @obl props=C11 tier=quick kind=lemma mem=8 est=300 timeout=2400
// @fns GameState::next_push_pull_state GameState::must_complete_push_actions GameState::extend_with_pull_piece_actions
// @clause colour swap + rank flip: same statement
#[kani::proof]
#[kani::unwind(6)]
fn c11_swap_status() {
    sym_status_machine(Sym::Swap);
}
// @obl props=C05,C06 tier=thorough kind=harness-contract mem=12 est=600 timeout=3600
// @bounded history lists of length <= 6
// @fns hash_history_contains_hash_twice List::iter Iter::next List::append
// @clause as c05_twice_leaf, for histories of length <= 6
#[kani::proof]
#[kani::unwind(9)]
fn c05_twice_leaf_6() {
    let n: usize = kani::any();
    kani::assume(n <= 6);
    let e: [u64; 6] = [kani::any(), kani::any(), kani::any(), kani::any(), kani::any(), kani::any()];
    let h: u64 = kani::any();
    let mut l: List<Zobrist> = List::new();
    let mut occurrences = 0;
    let mut k = 0;
    while k < 6 {
        if k < n {
            l = l.append(zob(e[k]));
            if e[k] == h {
                occurrences += 1;
            }
        }
        k += 1;
    }
    kani::cover!(occurrences == 2 && n == 6);
    assert!(hash_history_contains_hash_twice(&l, &zob(h)) == (occurrences >= 2), "C05: 'already occurred twice' is decided by counting the recorded turn-start hashes");
}
// @obl props=C01,C07 tier=thorough kind=harness-contract mem=16 est=900 timeout=3600
// @fns GameState::extend_with_pull_piece_actions
// @clause as c01_gen_pull, but starting from `Vec::new()` (capacity 0, the way has_move calls it): exercises Vec growth instead of relying on A1
#[kani::proof]
#[kani::unwind(6)]
fn c01_gen_pull_from_empty_vec() {
    let side: bool = kani::any();
    let pb = any_wf_board();
    let st = any_status();
    kani::assume(wf_status(&pb, side, 1, pp_of(st)));
    let gs = play_state(&pb, side, 1, st);
    let i = any_sq();
    let d = any_direction();
    let spec = match pp_of(st) {
        Pp::Pull(psq, pt) => pull_complete(&pb, side, psq, pt, i, d),
        _ => false,
    };
    kani::cover!(spec);
    let mut v: Vec<Action> = Vec::new();
    gs.extend_with_pull_piece_actions(&mut v, &pb);
    assert!(v.len() <= 4 && all_moves(&v), "C01: at most four pull completions, all Moves");
    assert!(has_move_in(&v, i, d) == spec, "C01: offered pull completions == legal pull completions");
}
// ===========================================================================
// Public-API twins.  The obligations above name private functions (PieceBoard::take_action, next_push_pull_state, ...)
// because that is where the contracts live; a refactoring that changes a private signature prunes them (lost anchor).
// These twins state the core of C02 / C13 through the public API only (GameState::new / take_action / piece_board /
// trapped_animal_for_action), so that the properties stay decided across such refactorings.
// ===========================================================================
fn public_state(pb: &PieceBoardState, side: bool, step: usize, st: PushPullState) -> GameState {
    let board = PieceBoard::new(pb.p1_pieces, pb.elephants, pb.camels, pb.horses, pb.dogs, pb.cats, pb.rabbits);
    let prev = match step {
        0 => Vec::new(),
        _ => vec![PieceBoard::new(kani::any(), kani::any(), kani::any(), kani::any(), kani::any(), kani::any(), kani::any())],
    };
    let pp = PlayPhase::new(zob(kani::any()), List::new(), prev, st, kani::any());
    GameState::new(side, 2, Phase::PlayPhase(pp), board, zob(kani::any()))
}
// @obl props=C02,C10,C13,C19 tier=quick kind=harness-contract mem=6 est=200 timeout=1800
// @fns GameState::take_action GameState::piece_board GameState::trapped_animal_for_action GameState::new PieceBoard::new PlayPhase::new
// @clause public API only. requires legal_board, a status allowed by the invariant after one step of a turn (nothing pending / possible pull / push to complete) and a step the rules offer there. ensures the state after take_action(Move(i,d)) has, per square, exactly the content the rules prescribe (after_step_at: the piece moved one square keeping type and owner, every piece left on a trap without a friendly neighbour is gone, nothing else changed); all eight words consistent and trap-clean; trapped_animal_for_action returns None iff nothing was removed and otherwise the square/type/owner of the piece that disappears
#[kani::proof]
#[kani::unwind(6)]
#[kani::stub(crate::zobrist::piece_board_value, pbv_ghost)]
fn c02_public_step() {
    let pb = any_legal_board();
    let side: bool = kani::any();
    let i = any_sq();
    let d = any_direction();
    // any state the invariant allows after one step of a turn (nothing pending / possible pull / push to complete), and any step the rules offer there
    let st = any_status();
    let pp = pp_of(st);
    kani::assume(wf_status(&pb, side, 1, pp));
    kani::assume(offered_move(&pb, side, 1, pp, i, d));
    let dst = match nbr(i, d) {
        Some(j) => j,
        None => {
            kani::assume(false);
            0
        }
    };
    let q = any_sq();
    let gs = public_state(&pb, side, 1, st);
    kani::cover!(captures_any(&pb, i, dst));
    kani::cover!(matches!(pp, Pp::Push(_, _)) && captures_any(&pb, i, dst), "a push completion that captures");
    let preview = gs.trapped_animal_for_action(&mv(i, d));
    let ns = gs.take_action(&mv(i, d));
    let nb = ns.piece_board();
    assert!(at(nb, q) == after_step_at(&pb, i, dst, q), "C02 (public API): square content after the step");
    assert!(legal_board(nb), "C10 (public API): consistent, trap-clean board after every step");
    match preview {
        None => assert!(!captures_any(&pb, i, dst), "C13 (public API): no preview <=> nothing removed"),
        Some((s, p, g)) => {
            let si = s.index() as u8;
            assert!(si < 64 && captured_at(&pb, i, dst, si) && after_move_at(&pb, i, dst, si) == Some((p, g)), "C13 (public API): the preview names the piece that is removed");
        }
    }
}
fn public_counters(step: usize) {
    let pb = any_wf_board();
    let side: bool = kani::any();
    let st = any_status();
    kani::assume(step > 0 || matches!(st, PushPullState::None));
    let board = PieceBoard::new(pb.p1_pieces, pb.elephants, pb.camels, pb.horses, pb.dogs, pb.cats, pb.rabbits);
    let mn: usize = kani::any();
    kani::assume(mn < usize::MAX);
    let pp = PlayPhase::new(zob(kani::any()), List::new(), prev_boards(step), st, kani::any());
    let gs = GameState::new(side, mn, Phase::PlayPhase(pp), board, zob(kani::any()));
    let ns = gs.take_action(&mv(any_sq(), any_direction()));
    let last = step == 3;
    assert!(ns.is_p1_turn_to_move() == (if last { !side } else { side }), "C03 (public API): side to move after a step");
    assert!(ns.current_step() == (if last { 0 } else { step + 1 }), "C03 (public API): step counter after a step");
    assert!(ns.move_number() == mn + (if last && !side { 1 } else { 0 }), "C03 (public API): move number grows exactly when Silver's turn ends");
    if last {
        let np = ns.unwrap_play_phase();
        assert!(np.push_pull_state() == PushPullState::None && np.previous_piece_boards().len() == 0 && !np.piece_trapped_this_turn(), "C03 (public API): nothing pending and a fresh per-turn record at turn start");
    }
    if step >= 1 && !matches!(st, PushPullState::MustCompletePush(_, _)) {
        let ps = gs.take_action(&Action::Pass);
        let np = ps.unwrap_play_phase();
        assert!(ps.is_p1_turn_to_move() == !side && ps.current_step() == 0 && ps.move_number() == mn + (if side { 0 } else { 1 }), "C03 (public API): side, step and move number after a pass");
        assert!(np.push_pull_state() == PushPullState::None && np.previous_piece_boards().len() == 0 && !np.piece_trapped_this_turn(), "C03 (public API): fresh per-turn record after a pass");
        assert!(same_board(ps.piece_board(), &pb), "C02 (public API): a pass leaves the board unchanged");
    }
}
// @obl props=C03,C02,C19 tier=quick kind=harness-contract mem=6 est=120 timeout=1500
// @fns GameState::take_action GameState::is_p1_turn_to_move GameState::current_step GameState::move_number PlayPhase::push_pull_state PlayPhase::previous_piece_boards
// @clause public API only, steps 0..3 and pass at 1..3: same side and step+1 unless it was the fourth step; other side, step 0, nothing pending, fresh record after the fourth step or a pass; move number +1 exactly when Silver's turn ends; pass leaves the board unchanged
#[kani::proof]
#[kani::unwind(6)]
#[kani::stub(crate::zobrist::piece_board_value, pbv_ghost)]
fn c03_public_counters() {
    kani::cover!(true);
    public_counters(0);
    public_counters(1);
    public_counters(2);
    public_counters(3);
}
// @obl props=C01,C02,C10,C12,C19 tier=quick kind=harness-contract mem=6 est=150 timeout=1800
// @fns GameState::take_action PlayPhase::push_pull_state
// @clause public API only, step 1 (any status allowed by the invariant), every step the rules offer: the status reported by the new state is next_pp (push to complete naming the vacated square and the displaced type / possible pull naming the square left and the type / nothing)
#[kani::proof]
#[kani::unwind(6)]
#[kani::stub(crate::zobrist::piece_board_value, pbv_ghost)]
fn c12_public_status() {
    let pb = any_wf_board();
    let side: bool = kani::any();
    let st = any_status();
    let pp = pp_of(st);
    kani::assume(wf_status(&pb, side, 1, pp));
    let i = any_sq();
    let d = any_direction();
    kani::assume(offered_move(&pb, side, 1, pp, i, d));
    let gs = public_state(&pb, side, 1, st);
    kani::cover!(matches!(next_pp(&pb, side, pp, i, d), Pp::Push(_, _)));
    let ns = gs.take_action(&mv(i, d));
    assert!(pp_of(ns.unwrap_play_phase().push_pull_state()) == next_pp(&pb, side, pp, i, d), "C12 (public API): reported status describes the step just made");
}
// @obl props=C07,C04 tier=quick kind=harness-contract mem=6 est=90 timeout=1800
// @fns GameState::has_move GameState::extend_with_valid_curr_player_piece_moves GameState::extend_with_pull_piece_actions GameState::extend_with_push_piece_actions GameState::has_non_passing_like_action GameState::can_pass
// @clause cross-check without the generator abstraction: the real has_move with the three real generators at step 0 (seam = recorder, which is emptiness-faithful: the real code only calls it with a non-empty word). A reported loss implies that no (square, direction) is a legal single step or push start; no loss implies a generator handed a non-empty mask to the seam
#[kani::proof]
#[kani::unwind(7)]
#[kani::stub(crate::action::map_bit_board_to_squares, seam_rec)]
#[kani::stub(crate::engine::hash_history_contains_hash_twice, twice_oracle)]
fn c07_has_move_monolithic_step0() {
    let side: bool = kani::any();
    let pb = any_wf_board();
    let gs = play_state(&pb, side, 0, PushPullState::None);
    let i = any_sq();
    let d = any_direction();
    let _rep = seam_reset();
    oracle_reset();
    let hm = gs.has_move(&pb);
    kani::cover!(hm.is_some());
    kani::cover!(hm.is_none());
    if hm.is_some() {
        assert!(!simple_step(&pb, side, i, d) && !push_start(&pb, side, 0, i, d), "C07/C04: a loss by immobilisation is reported only when no legal step exists");
        assert!(hm == Some(winner(!side)));
    } else {
        assert!(unsafe { SEAM_N } >= 1, "C07: no loss reported => some generator produced an action");
    }
}
// ===========================================================================
// C08 at the GameState level on CONCRETE states (bounded companion).  The unbounded argument is the chain
// transition obligations (difference form, board delta as a ghost) + Verus units pbv/fpb; this companion runs the real
// take_action with the real piece_board_value and compares with the real from-scratch hash, on a few concrete scenarios
// (captures by either colour, at a first step and at the turn-ending fourth step).  It keeps a semantic check with a
// concrete input alive when move_piece is restructured around the hash update.
// ===========================================================================
fn hash_scenario(board: PieceBoard, side: bool, step: usize, from: u8, d: Direction, expect_capture: bool) {
    let h = Zobrist::from_piece_board(board.piece_board(), side, step);
    let start = Zobrist::from_piece_board(board.piece_board(), side, 0);
    let prev = match step {
        0 => Vec::new(),
        1 => vec![board.clone()],
        _ => vec![board.clone(), board.clone(), board.clone()],
    };
    let pp = PlayPhase::new(start, List::new().append(start), prev, PushPullState::None, false);
    let gs = GameState::new(side, 5, Phase::PlayPhase(pp), board, h);
    let before = gs.piece_board().all_pieces.count_ones();
    let ns = gs.take_action(&mv(from, d));
    assert!((ns.piece_board().all_pieces.count_ones() < before) == expect_capture, "scenario as intended");
    let scratch = Zobrist::from_piece_board(ns.piece_board(), ns.is_p1_turn_to_move(), ns.current_step());
    assert!(raw(&ns.hash) == raw(&scratch), "C08: the incrementally maintained hash equals the from-scratch hash of the new state");
    if ns.current_step() == 0 {
        let np = ns.unwrap_play_phase();
        assert!(np.hash_history().head().map(|z| raw(z)) == Some(raw(&scratch)) && raw(&np.initial_hash_of_move) == raw(&scratch), "C08: the recorded turn-start hash is the from-scratch hash");
    }
}
// @obl props=C08,C05 tier=quick kind=harness-contract mem=6 est=250 timeout=2400
// @bounded two concrete states/steps: a capture by Gold at step 0 and a capture by Silver on the turn-ending fourth step
// @fns GameState::take_action GameState::move_piece Zobrist::move_piece piece_board_value Zobrist::from_piece_board
// @clause on these scenarios the state hash after take_action (real incremental update, real board delta) equals Zobrist::from_piece_board of the new board, side and step; at a turn end the recorded history entry and initial hash are that value too
#[kani::proof]
#[kani::unwind(8)]
fn c08_state_hash_concrete_smoke() {
    kani::cover!(true);
    let b = |i: u8| 1u64 << i;
    // Gold cats on c3 (42) and b3 (41): b3 steps west, the c3 cat is captured (Gold, step 0)
    hash_scenario(PieceBoard::new(b(42) | b(41), 0, 0, 0, 0, b(42) | b(41), 0), true, 0, 41, Direction::Left, true);
    // Silver dog on f6 (21) supported by a silver rabbit on g6 (22): g6 steps east as the fourth step of Silver's turn
    hash_scenario(PieceBoard::new(0, 0, 0, 0, b(21), 0, b(22)), false, 3, 22, Direction::Right, true);
}
// @obl props=C08,C05 tier=thorough kind=harness-contract mem=8 est=500 timeout=3600
// @bounded four more concrete states/steps: a capture by Silver at step 0, by Gold on the fourth step, and two non-capturing steps
// @fns GameState::take_action GameState::move_piece Zobrist::move_piece piece_board_value Zobrist::from_piece_board
// @clause as c08_state_hash_concrete_smoke
#[kani::proof]
#[kani::unwind(8)]
fn c08_state_hash_concrete_smoke_more() {
    kani::cover!(true);
    let b = |i: u8| 1u64 << i;
    hash_scenario(PieceBoard::new(0, 0, 0, 0, b(21), 0, b(22)), false, 0, 22, Direction::Right, true);
    hash_scenario(PieceBoard::new(b(45) | b(44), 0, 0, b(45) | b(44), 0, 0, 0), true, 3, 44, Direction::Up, true);
    hash_scenario(PieceBoard::new(0, 0, b(27), 0, 0, 0, b(3)), false, 1, 27, Direction::Down, false);
    hash_scenario(PieceBoard::new(b(36) | b(60), b(36), 0, 0, 0, 0, b(60)), true, 3, 36, Direction::Up, false);
}
// ===========================================================================
// meta: the canary.  An `ensures` that is false on the real supported_pieces; it must FAIL.
// If it ever passes, the pipeline is not checking anything and the whole run is UNDECIDED.
// ===========================================================================
// @obl props=ALL tier=quick kind=canary mem=2 est=1
// @expect fail
// @fns supported_pieces
// @clause (false on purpose) supported_pieces(x) == x
#[kani::proof]
fn meta_canary_must_fail() {
    let x: u64 = kani::any();
    assert!(supported_pieces(x) == x, "canary: must fail");
}

// verif_engine.rs -- obligations about src/engine.rs.  Woven in as the child module
// `engine::verif` (cfg(kani) only), so it sees the private items of engine.rs and
// changes none of them.
#![allow(dead_code)]
#![allow(unused_imports)]

use super::*;
use crate::vspec::*;

// --------------------------------------------------------------- generators
pub fn any_sq() -> u8 {
    let i: u8 = kani::any();
    kani::assume(i < 64);
    i
}
pub fn any_direction() -> Direction {
    let k: u8 = kani::any();
    kani::assume(k < 4);
    DIRS[k as usize]
}
pub fn any_piece() -> Piece {
    let k: u8 = kani::any();
    kani::assume(k < 6);
    Piece::ALL[k as usize]
}
/// eight unconstrained words
pub fn any_board_raw() -> PieceBoardState {
    PieceBoardState {
        p1_pieces: kani::any(),
        all_pieces: kani::any(),
        elephants: kani::any(),
        camels: kani::any(),
        horses: kani::any(),
        dogs: kani::any(),
        cats: kani::any(),
        rabbits: kani::any(),
    }
}
pub fn any_wf_board() -> PieceBoardState {
    let pb = any_board_raw();
    kani::assume(board_wf(&pb));
    pb
}
pub fn any_legal_board() -> PieceBoardState {
    let pb = any_board_raw();
    kani::assume(legal_board(&pb));
    pb
}
pub fn same_board(a: &PieceBoardState, b: &PieceBoardState) -> bool {
    a.p1_pieces == b.p1_pieces
        && a.all_pieces == b.all_pieces
        && a.elephants == b.elephants
        && a.camels == b.camels
        && a.horses == b.horses
        && a.dogs == b.dogs
        && a.cats == b.cats
        && a.rabbits == b.rabbits
}

// ===========================================================================
// C02  PieceBoard::take_action : a step moves one piece one square and captures
//      exactly the unsupported trap pieces
// ===========================================================================
/// harness-contract of `PieceBoard::take_action(Move(src,d))`
///   requires  legal_board(old) && at(old,src) != None && nbr(src,d) == Some(dst) && at(old,dst) == None
///   ensures   forall i: at(new,i) == after_step_at(old,src,dst,i)
///             board_wf(new) && trap_clean(new)             (all eight words consistent)
///             flag <=> some piece was removed
// @obl props=C02,C10,C13,C19 tier=quick kind=harness-contract mem=3 est=35
// @fns PieceBoard::take_action PieceBoard::move_piece PieceBoard::remove_trapped_pieces PieceBoardState::trapped_piece_bits shift_piece_in_direction shift_in_direction both_player_unsupported_piece_bits both_player_supported_pieces supported_pieces animal_is_on_trap Square::as_bit_board
// @clause requires legal_board(old) && at(old,src)!=None && nbr(src,d)==Some(dst) && at(old,dst)==None
// @clause ensures forall i<64: at(new,i)==after_step_at(old,src,dst,i); board_wf(new); trap_clean(new); flag <=> a piece was removed; no panic/overflow
#[kani::proof]
fn c02_pb_take_action() {
    let pb = any_legal_board();
    let src = any_sq();
    let d = any_direction();
    kani::assume(at(&pb, src).is_some());
    let dst = match nbr(src, d) {
        Some(j) => j,
        None => {
            kani::assume(false);
            0
        }
    };
    kani::assume(at(&pb, dst).is_none());
    kani::cover!(true, "precondition satisfiable");
    kani::cover!(captures_any(&pb, src, dst), "a capturing step exists");

    let i = any_sq(); // the universally quantified square of the postcondition

    let (nb, flag) = PieceBoard(pb.clone()).take_action(&mv(src, d));

    assert!(at(&nb, i) == after_step_at(&pb, src, dst, i), "C02: square content after the step");
    assert!(board_wf(&nb), "C02/C10: the eight words stay consistent");
    assert!(trap_clean(&nb), "C02/C10: no unsupported piece is left on a trap");
    assert!(flag == captures_any(&pb, src, dst), "C02: returned flag <=> something was removed");
}

// ===========================================================================
// meta: the canary.  An `ensures` that is false on the real supported_pieces; it must FAIL.
// If it ever passes, the pipeline is not checking anything and the whole run is UNDECIDED.
// ===========================================================================
// @obl props=ALL tier=quick kind=canary mem=2 est=1
// @expect fail
// @fns supported_pieces
// @clause (false on purpose) supported_pieces(x) == x
#[kani::proof]
fn meta_canary_must_fail() {
    let x: u64 = kani::any();
    assert!(supported_pieces(x) == x, "canary: must fail");
}

// verif_engine.rs -- obligations about src/engine.rs.  Woven in as the child module
// `engine::verif` (cfg(kani) only), so it sees the private items of engine.rs and
// changes none of them.
#![allow(dead_code)]
#![allow(unused_imports)]

use super::*;
use crate::vspec::*;

// --------------------------------------------------------------- generators
pub fn any_sq() -> u8 {
    let i: u8 = kani::any();
    kani::assume(i < 64);
    i
}
pub fn any_direction() -> Direction {
    let k: u8 = kani::any();
    kani::assume(k < 4);
    DIRS[k as usize]
}
pub fn any_piece() -> Piece {
    let k: u8 = kani::any();
    kani::assume(k < 6);
    Piece::ALL[k as usize]
}
/// eight unconstrained words
pub fn any_board_raw() -> PieceBoardState {
    PieceBoardState {
        p1_pieces: kani::any(),
        all_pieces: kani::any(),
        elephants: kani::any(),
        camels: kani::any(),
        horses: kani::any(),
        dogs: kani::any(),
        cats: kani::any(),
        rabbits: kani::any(),
    }
}
pub fn any_wf_board() -> PieceBoardState {
    let pb = any_board_raw();
    kani::assume(board_wf(&pb));
    pb
}
pub fn any_legal_board() -> PieceBoardState {
    let pb = any_board_raw();
    kani::assume(legal_board(&pb));
    pb
}
pub fn same_board(a: &PieceBoardState, b: &PieceBoardState) -> bool {
    a.p1_pieces == b.p1_pieces
        && a.all_pieces == b.all_pieces
        && a.elephants == b.elephants
        && a.camels == b.camels
        && a.horses == b.horses
        && a.dogs == b.dogs
        && a.cats == b.cats
        && a.rabbits == b.rabbits
}

/// a state without any heap: the board-level rule functions never look at the phase
pub fn lean_state(side: bool) -> GameState {
    GameState::new(side, 2, Phase::PlacePhase, PieceBoard::initial(), Zobrist::initial())
}

// ===========================================================================
// Layer 0 / 1.  Two forms of the same kind of statement:
//  * in-place Kani function contracts (contracts/engine.contracts, woven above the real fn),
//    proved with proof_for_contract, re-usable by callers through stub_verified.  Measured:
//    a woven contract makes *every* harness that calls the function pay for the contract
//    closures, so each obligation names the contracts it needs (`@uses`) and the weaver
//    builds one copy of the crate per distinct set.
//  * harness-contracts: assume pre / call the real fn / assert post, with the universally
//    quantified square as a symbolic input.  Loop-free, inputs fully symbolic: complete.
// ===========================================================================
// @obl props=C01,C02,C10,C11,C19 tier=quick kind=contract mem=2 est=10
// @uses supported_pieces
// @fns supported_pieces
// @clause ensures forall i: bit(r,i) <=> bit(x,i) && some orthogonal neighbour of i (by file/rank arithmetic, no wrap-around) is in x
#[kani::proof_for_contract(supported_pieces)]
fn k_supported_pieces() {
    kani::cover!(true);
    supported_pieces(kani::any());
}
// @obl props=C01,C19 tier=quick kind=contract mem=4 est=90
// @uses GameState::threatened_pieces
// @fns GameState::threatened_pieces influenced_squares
// @clause requires board_wf ensures forall i: bit(r,i) <=> i in prey mask, holds a piece, and a strictly stronger piece inside the predator mask is orthogonally adjacent
#[kani::proof_for_contract(GameState::threatened_pieces)]
fn k_threatened_pieces() {
    let gs = lean_state(kani::any());
    let pb = any_board_raw();
    kani::cover!(board_wf(&pb));
    gs.threatened_pieces(kani::any(), kani::any(), &pb);
}
// @obl props=C01 tier=quick kind=contract mem=2 est=10
// @uses GameState::opponent_piece_mask
// @fns GameState::opponent_piece_mask
// @clause requires board_wf ensures forall i: bit(r,i) <=> at(pb,i) is a piece of the opponent
#[kani::proof_for_contract(GameState::opponent_piece_mask)]
fn k_opponent_piece_mask() {
    let gs = lean_state(kani::any());
    let pb = any_board_raw();
    kani::cover!(board_wf(&pb));
    gs.opponent_piece_mask(&pb);
}
// @obl props=C01 tier=thorough kind=contract mem=20 est=600 timeout=3000
// @uses GameState::curr_player_non_frozen_pieces GameState::threatened_pieces supported_pieces GameState::opponent_piece_mask
// @fns GameState::curr_player_non_frozen_pieces
// @clause in-place contract of curr_player_non_frozen_pieces (64-way) with the caller checked against the CONTRACTS of threatened_pieces, supported_pieces, opponent_piece_mask only (stub_verified), not their bodies
#[kani::proof_for_contract(GameState::curr_player_non_frozen_pieces)]
#[kani::stub_verified(GameState::threatened_pieces)]
#[kani::stub_verified(supported_pieces)]
#[kani::stub_verified(GameState::opponent_piece_mask)]
fn k_curr_player_non_frozen_pieces_modular() {
    let gs = lean_state(kani::any());
    let pb = any_board_raw();
    kani::cover!(board_wf(&pb));
    gs.curr_player_non_frozen_pieces(&pb);
}

// @obl props=C01,C07,C12,C19 tier=quick kind=harness-contract mem=3 est=20
// @fns GameState::curr_player_non_frozen_pieces GameState::threatened_pieces supported_pieces GameState::opponent_piece_mask influenced_squares
// @clause requires board_wf ensures forall i: bit(r,i) <=> a piece of the mover stands on i and is not frozen (no stronger enemy adjacent, or a friend adjacent)
#[kani::proof]
fn k_curr_player_non_frozen_pieces() {
    let side: bool = kani::any();
    let gs = lean_state(side);
    let pb = any_wf_board();
    let i = any_sq();
    kani::cover!(frozen(&pb, i));
    let r = gs.curr_player_non_frozen_pieces(&pb);
    let mine = match at(&pb, i) {
        Some((_, g)) => g == side,
        None => false,
    };
    assert!(bit(r, i) == (mine && !frozen(&pb, i)), "C01: non-frozen mask = own pieces that are not frozen");
}
// @obl props=C01,C11,C19 tier=quick kind=harness-contract mem=2 est=5
// @fns influenced_squares shift_pieces_in_direction shift_pieces_in_opp_direction shift_in_direction can_move_in_direction
// @clause forall i,d,x: influenced_squares / shift_pieces_in_direction / shift_pieces_in_opp_direction / can_move_in_direction agree with neighbour arithmetic on file and rank (edge masks prevent wrap-around); shift_in_direction moves a single bit to nbr(i,d) when that exists
#[kani::proof]
fn k_shifts() {
    let x: u64 = kani::any();
    let d = any_direction();
    let i = any_sq();
    kani::cover!(nbr(i, d).is_none());
    kani::cover!(nbr(i, d).is_some());
    assert!(bit(influenced_squares(x), i) == any_dir(|e| match nbr(i, e) { Some(j) => bit(x, j), None => false }), "influenced_squares");
    assert!(bit(shift_pieces_in_direction(x, &d), i) == match nbr(i, opp_dir(d)) { Some(j) => bit(x, j), None => false }, "shift_pieces_in_direction");
    assert!(bit(shift_pieces_in_opp_direction(x, &d), i) == match nbr(i, d) { Some(j) => bit(x, j), None => false }, "shift_pieces_in_opp_direction");
    let pb = any_board_raw();
    assert!(bit(can_move_in_direction(&d, &pb), i) == match nbr(i, d) { Some(j) => !bit(pb.all_pieces, j), None => false }, "can_move_in_direction");
    if let Some(j) = nbr(i, d) {
        assert!(shift_in_direction(1u64 << i, &d) == 1u64 << j, "shift_in_direction on a single bit");
        assert!(shift_piece_in_direction(x, 1u64 << i, &d) == if bit(x, i) { (x & !(1u64 << i)) | (1u64 << j) } else { x }, "shift_piece_in_direction");
    }
}
// @obl props=C01,C09,C10,C19 tier=quick kind=harness-contract mem=2 est=5
// @fns GameState::curr_player_piece_mask GameState::opponent_piece_mask GameState::invalid_rabbit_moves GameState::lesser_pieces GameState::is_their_piece piece_type_at_bit PieceBoardState::piece_type_at_square
// @clause requires board_wf ensures the masks equal their at()-based definitions per square; piece_type_at_bit/at_square == type of at(pb,i) (fall-through Cat arm only for cats); is_their_piece <=> owner != mover
#[kani::proof]
fn k_masks() {
    let side: bool = kani::any();
    let gs = lean_state(side);
    let pb = any_wf_board();
    let i = any_sq();
    let d = any_direction();
    let p = any_piece();
    kani::cover!(at(&pb, i).is_some());
    let a = at(&pb, i);
    assert!(bit(gs.curr_player_piece_mask(&pb), i) == match a { Some((_, g)) => g == side, None => false }, "curr_player_piece_mask");
    assert!(bit(gs.opponent_piece_mask(&pb), i) == match a { Some((_, g)) => g != side, None => false }, "opponent_piece_mask");
    assert!(bit(gs.invalid_rabbit_moves(&d, &pb), i) == (d == backward(side) && a == Some((Piece::Rabbit, side))), "invalid_rabbit_moves");
    assert!(bit(gs.lesser_pieces(p, &pb), i) == match a { Some((t, _)) => strength(t) < strength(p), None => false }, "lesser_pieces");
    assert!(pb.piece_type_at_square(&sq(i)) == a.map(|(t, _)| t), "piece_type_at_square");
    if let Some((t, g)) = a {
        assert!(piece_type_at_bit(1u64 << i, &pb) == t, "piece_type_at_bit");
        assert!(gs.is_their_piece(1u64 << i, &pb) == (g != side), "is_their_piece");
    }
    // the derived order on Piece that the engine compares with is the strength order
    let q = any_piece();
    assert!((p > q) == (strength(p) > strength(q)), "Piece: derived Ord == strength order");
}
// @obl props=C04,C19 tier=quick kind=contract mem=2 est=20
// @uses GameState::rabbit_at_goal
// @fns GameState::rabbit_at_goal
// @clause requires board_wf ensures r == (rabbit of the player who just moved on its goal rank (8 for Gold, 1 for Silver; all 8 files) -> that player; else rabbit of the mover on its goal rank -> mover; else None)
#[kani::proof_for_contract(GameState::rabbit_at_goal)]
fn k_rabbit_at_goal() {
    let gs = lean_state(kani::any());
    let pb = any_board_raw();
    kani::cover!(board_wf(&pb));
    gs.rabbit_at_goal(&pb);
}
// @obl props=C04,C19 tier=quick kind=contract mem=2 est=20
// @uses GameState::lost_all_rabbits
// @fns GameState::lost_all_rabbits
// @clause requires board_wf ensures r == (mover has no rabbit -> player who just moved wins; else that player has none -> mover wins; else None)
#[kani::proof_for_contract(GameState::lost_all_rabbits)]
fn k_lost_all_rabbits() {
    let gs = lean_state(kani::any());
    let pb = any_board_raw();
    kani::cover!(board_wf(&pb));
    gs.lost_all_rabbits(&pb);
}

// ===========================================================================
// C02  PieceBoard::take_action : a step moves one piece one square and captures
//      exactly the unsupported trap pieces
// ===========================================================================
/// harness-contract of `PieceBoard::take_action(Move(src,d))`
///   requires  legal_board(old) && at(old,src) != None && nbr(src,d) == Some(dst) && at(old,dst) == None
///   ensures   forall i: at(new,i) == after_step_at(old,src,dst,i)
///             board_wf(new) && trap_clean(new)             (all eight words consistent)
///             flag <=> some piece was removed
// @obl props=C02,C10,C13,C19 tier=quick kind=harness-contract mem=3 est=35
// @fns PieceBoard::take_action PieceBoard::move_piece PieceBoard::remove_trapped_pieces PieceBoardState::trapped_piece_bits shift_piece_in_direction shift_in_direction both_player_unsupported_piece_bits both_player_supported_pieces supported_pieces animal_is_on_trap Square::as_bit_board
// @clause requires legal_board(old) && at(old,src)!=None && nbr(src,d)==Some(dst) && at(old,dst)==None
// @clause ensures forall i<64: at(new,i)==after_step_at(old,src,dst,i); board_wf(new); trap_clean(new); flag <=> a piece was removed; no panic/overflow
#[kani::proof]
fn c02_pb_take_action() {
    let pb = any_legal_board();
    let src = any_sq();
    let d = any_direction();
    kani::assume(at(&pb, src).is_some());
    let dst = match nbr(src, d) {
        Some(j) => j,
        None => {
            kani::assume(false);
            0
        }
    };
    kani::assume(at(&pb, dst).is_none());
    kani::cover!(true, "precondition satisfiable");
    kani::cover!(captures_any(&pb, src, dst), "a capturing step exists");

    let i = any_sq(); // the universally quantified square of the postcondition

    let (nb, flag) = PieceBoard(pb.clone()).take_action(&mv(src, d));

    assert!(at(&nb, i) == after_step_at(&pb, src, dst, i), "C02: square content after the step");
    assert!(board_wf(&nb), "C02/C10: the eight words stay consistent");
    assert!(trap_clean(&nb), "C02/C10: no unsupported piece is left on a trap");
    assert!(flag == captures_any(&pb, src, dst), "C02: returned flag <=> something was removed");
}

// ===========================================================================
// meta: the canary.  An `ensures` that is false on the real supported_pieces; it must FAIL.
// If it ever passes, the pipeline is not checking anything and the whole run is UNDECIDED.
// ===========================================================================
// @obl props=ALL tier=quick kind=canary mem=2 est=1
// @expect fail
// @fns supported_pieces
// @clause (false on purpose) supported_pieces(x) == x
#[kani::proof]
fn meta_canary_must_fail() {
    let x: u64 = kani::any();
    assert!(supported_pieces(x) == x, "canary: must fail");
}

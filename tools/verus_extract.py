#!/usr/bin/env python3
"""verus_extract.py -- mechanical extraction of real functions into single-file Verus units."""


def load_obligations():
    return []

#!/usr/bin/env python3
"""verus_extract.py -- mechanical extraction of real functions into single-file Verus units.

Verus only works single-file offline in this sandbox, so every run re-extracts the listed
`fn` items from /repo's working tree into <scratch>/verus/<unit>.rs and runs `verus` on it.

A unit is described by /verif/verus/<unit>.spec:

    @unit seam
    @props C01,C16,C19
    @tier quick
    @prelude
      ... verus text emitted verbatim before the extracted items (type re-declarations, spec fns) ...
    @fn src/action.rs :: - :: map_bit_board_to_squares :: ret squares
    @clause  one-line statement of the contract (for the evidence)
    @contract
      ... requires / ensures text, inserted between the real signature and the real body ...
    @start
      ... text inserted at the very start of the body ...
    @loop while board != 0
      ... invariant / decreases text inserted between that loop header and its `{` ...
    @forloop for is_p1 in [true, false].iter() :: it1
      ... as @loop; additionally the header gets the ghost iterator name:  for is_p1 in it1: [true, false].iter()
    @before <exact stripped source line>
      ... text inserted before that line ...
    @after <exact stripped source line>
      ... text inserted after that line ...
    @endfn
    @postlude
      ... verbatim ...

What the extraction keeps: the signature and every body line of the real function, byte for byte
(SHA-256 of the real item goes into the evidence).  What it drops or changes, exactly:
  * everything that is not listed (callers, other items); doc comments and attributes above the fn
  * the return type `-> T` is written `-> (name: T)` so that the contract can name the result
  * `for` loop headers listed under @forloop get a ghost iterator name
  * text is only ever *inserted* (contract clauses, invariants, ghost/proof blocks)
  * `@closure <anchor>`: the single closure `|p| body` on the anchored line is re-emitted as
    `|p: T| -> (v: U) ensures .. { body }` -- parameter names must equal the real ones, the body text is kept byte for byte
    (Verus knows nothing about an unannotated closure's result)
  * `@item file :: struct|type :: Name` copies the real type definition verbatim (derive attributes above it are dropped);
    `@feature x` emits `#![feature(x)]` (needed to name `Arc<T, A>`'s allocator parameter in an assumed std contract)
A missing or ambiguous anchor line raises WeaveError -> exit 2 (UNDECIDED), never a VIOLATION.
"""
import os
import re
import sys

sys.path.insert(0, os.path.dirname(os.path.abspath(__file__)))
import weave  # noqa: E402
from weave import WeaveError  # noqa: E402

VERIF = weave.VERIF


def parse_spec(path):
    unit = dict(name=None, props=[], tier='quick', prelude='', postlude='', fns=[], mem_gb=3, timeout_s=600, est_s=10,
                path=path, consts=[], items=[], features=[])
    cur_fn = None
    cur_block = None  # (kind, arg, lines)
    mode = None

    def flush():
        nonlocal cur_block
        if cur_block is None:
            return
        kind, arg, lines = cur_block
        text = '\n'.join(lines)
        if kind == 'prelude':
            unit['prelude'] += text + '\n'
        elif kind == 'postlude':
            unit['postlude'] += text + '\n'
        elif cur_fn is not None:
            if kind == 'contract':
                cur_fn['contract'] = text
            elif kind == 'start':
                cur_fn['start'] = text
            else:
                cur_fn['inserts'].append(dict(kind=kind, anchor=arg, text=text))
        cur_block = None

    text_lines = []
    for raw in open(path).read().split('\n'):
        mi = re.match(r'@include\s+(\S+)', raw)
        if mi:
            text_lines += open(os.path.join(os.path.dirname(path), mi.group(1))).read().split('\n')
        else:
            text_lines.append(raw)
    for raw in text_lines:
        m = re.match(r'@(\w+)\s*(.*)', raw)
        if m and m.group(1) in ('unit', 'props', 'tier', 'prelude', 'postlude', 'fn', 'clause', 'contract', 'start', 'loop',
                                'forloop', 'before', 'after', 'afterblock', 'endfn', 'mem', 'timeout', 'est', 'replace', 'const', 'item', 'feature',
                                'closure'):
            tag, rest = m.group(1), m.group(2).strip()
            flush()
            if tag == 'unit':
                unit['name'] = rest
            elif tag == 'props':
                unit['props'] = [x.strip() for x in rest.split(',')]
            elif tag == 'tier':
                unit['tier'] = rest
            elif tag == 'mem':
                unit['mem_gb'] = float(rest)
            elif tag == 'timeout':
                unit['timeout_s'] = int(rest)
            elif tag == 'est':
                unit['est_s'] = int(rest)
            elif tag in ('prelude', 'postlude'):
                cur_block = (tag, None, [])
            elif tag == 'fn':
                parts = [p.strip() for p in rest.split('::')]
                cur_fn = dict(file=parts[0], owner=parts[1], fn=parts[2], ret=None, contract='', start='', inserts=[],
                              clause='', emit_owner=None)
                for extra in parts[3:]:
                    if extra.startswith('ret '):
                        cur_fn['ret'] = extra[4:].strip()
                    if extra.startswith('impl '):
                        cur_fn['emit_owner'] = extra[5:].strip()
                unit['fns'].append(cur_fn)
            elif tag == 'const':
                parts = [p.strip() for p in rest.split('::')]
                unit['consts'].append(dict(file=parts[0], name=parts[1]))
            elif tag == 'item':
                parts = [p.strip() for p in rest.split('::')]
                unit['items'].append(dict(file=parts[0], kind=parts[1], name=parts[2]))
            elif tag == 'feature':
                unit['features'].append(rest)
            elif tag == 'clause':
                if cur_fn is not None:
                    cur_fn['clause'] += (' ' if cur_fn['clause'] else '') + rest
            elif tag in ('contract', 'start'):
                cur_block = (tag, None, [])
            elif tag in ('loop', 'forloop', 'before', 'after', 'afterblock', 'replace', 'closure'):
                cur_block = (tag, rest, [])
            elif tag == 'endfn':
                cur_fn = None
            continue
        if cur_block is not None:
            cur_block[2].append(raw)
    flush()
    return unit


def transform_signature(sig, ret_name):
    sig = sig.rstrip()
    if ret_name:
        # find the top-level `->`
        depth = 0
        pos = None
        for i, ch in enumerate(sig):
            if ch in '([<':
                depth += 1
            elif ch in ')]>':
                if ch == '>' and i > 0 and sig[i - 1] == '-':
                    if depth == 0:
                        pos = i - 1
                    continue
                depth -= 1
        if pos is None:
            raise WeaveError('anchor lost: signature has no return type to name (%s)' % sig.strip()[:60])
        ty = sig[pos + 2:].strip()
        sig = sig[:pos] + '-> (%s: %s)' % (ret_name, ty)
    return sig


def annotate_closure(line, text):
    """The one closure `|params| body` on `line` (body = the expression up to the closing parenthesis of the call it is an
    argument of, on the same line) becomes `<typed header> <ensures> { body }`: the first line of `text` is the typed header
    `|p: T| -> (v: U)`, the rest the ensures clause.  The parameter names must be the real ones and the body text is kept byte
    for byte; anything else is a lost anchor."""
    m = re.search(r'\|([^|]*)\|\s*', line)
    if not m or line.count('|') != 2:
        raise WeaveError('anchor lost: expected exactly one closure on line `%s`' % line.strip())
    depth = 0
    end = None
    for i in range(m.end(), len(line)):
        ch = line[i]
        if ch in '([{':
            depth += 1
        elif ch in ')]}':
            if depth == 0:
                end = i
                break
            depth -= 1
    if end is None:
        raise WeaveError('anchor lost: closure body not closed on line `%s`' % line.strip())
    body = line[m.end():end]
    tl = [x for x in text.split('\n') if x.strip()]
    header, ens = tl[0].strip(), ' '.join(x.strip() for x in tl[1:])
    hm = re.match(r'\|([^|]*)\|', header)
    real = [x.strip() for x in m.group(1).split(',')]
    typed = [x.split(':')[0].strip() for x in hm.group(1).split(',')] if hm else None
    if typed != real:
        raise WeaveError('anchor lost: closure parameters `%s` differ from the annotated `%s`' % (m.group(1), header))
    return line[:m.start()] + header + ' ' + ens + ' { ' + body + ' }' + line[end:]


def build_fn(repo, f):
    path = os.path.join(repo, f['file'])
    if not os.path.exists(path):
        raise WeaveError('anchor lost: file %s' % f['file'])
    s = open(path).read()
    loc = weave.find_fn(s, f['owner'], f['fn'])
    item = s[loc['sig_start']:loc['end']]
    sig = s[loc['sig_start']:loc['body_open']]
    body = s[loc['body_open'] + 1:loc['end'] - 1]
    lines = body.split('\n')
    used = set()

    captured = {}

    def find_line(anchor, strip_brace=False):
        """anchor = exact stripped source line, or `~ <regex>` matched against the whole stripped line; named groups of a
        regex anchor are available in the inserted texts as ${name} (so that a renamed local does not lose the anchor)"""
        hits = []
        rx = re.compile(anchor[2:].strip()) if anchor.startswith('~ ') else None
        for k, l in enumerate(lines):
            t = l.strip()
            if strip_brace and t.endswith('{'):
                t = t[:-1].strip()
            if rx is not None:
                m = rx.fullmatch(t)
                if m and k not in used:
                    hits.append(k)
                    last = m
            elif t == anchor and k not in used:
                hits.append(k)
        if len(hits) != 1:
            raise WeaveError('anchor lost in %s::%s: line `%s` found %d times' % (f['owner'], f['fn'], anchor, len(hits)))
        if rx is not None:
            captured.update(last.groupdict())
        return hits[0]

    # resolve all anchors against the pristine body first
    ops = []
    for ins in f['inserts']:
        if ins['kind'] == 'loop':
            k = find_line(ins['anchor'], strip_brace=True)
            ops.append((k, 'loop', ins, None))
        elif ins['kind'] == 'forloop':
            header, itname = [x.strip() for x in ins['anchor'].rsplit(' :: ', 1)]
            k = find_line(header, strip_brace=True)
            ops.append((k, 'forloop', ins, itname))
        elif ins['kind'] in ('before', 'after'):
            k = find_line(ins['anchor'])
            ops.append((k, ins['kind'], ins, None))
        elif ins['kind'] == 'closure':
            k = find_line(ins['anchor'])
            ops.append((k, 'closure', ins, None))
        elif ins['kind'] == 'afterblock':
            # after the closing brace of the block whose header line is the anchor
            k = find_line(ins['anchor'], strip_brace=True)
            depth = 0
            end = None
            for kk in range(k, len(lines)):
                depth += lines[kk].count('{') - lines[kk].count('}')
                if depth == 0 and kk >= k and '{' in ''.join(lines[k:kk + 1]):
                    end = kk
                    break
            if end is None:
                raise WeaveError('anchor lost: block of `%s` not closed' % ins['anchor'])
            ops.append((end, 'after', ins, None))
    out_lines = list(lines)
    # apply from the bottom up so that indices stay valid; several inserts on one line keep spec order
    prio = {'loop': 0, 'forloop': 0, 'closure': 0, 'after': 1, 'before': 2}
    for k, kind, ins, extra in sorted(ops, key=lambda x: (-x[0], prio[x[1]])):
        l = out_lines[k]
        if kind == 'loop':
            assert l.rstrip().endswith('{')
            out_lines[k] = l.rstrip()[:-1].rstrip() + '\n' + ins['text'] + '\n{'
        elif kind == 'forloop':
            mm = re.match(r'(\s*for\s+.+?\s+in\s+)(.*)\{\s*$', l, re.S)
            if not mm:
                raise WeaveError('anchor lost: not a for loop header: %s' % l.strip())
            out_lines[k] = '%s%s: %s\n%s\n{' % (mm.group(1), extra, mm.group(2).strip(), ins['text'])
        elif kind == 'closure':
            ctext = ins['text']
            for k_, v_ in captured.items():  # ${name} = named groups of regex anchors (a renamed closure parameter keeps the anchor)
                ctext = ctext.replace('${%s}' % k_, v_)
            out_lines[k] = annotate_closure(l, ctext)
        elif kind == 'before':
            out_lines[k] = ins['text'] + '\n' + l
        elif kind == 'after':
            out_lines[k] = l + '\n' + ins['text']
    def subst(t):
        for k_, v_ in captured.items():
            t = t.replace('${%s}' % k_, v_)
        if re.search(r'\$\{\w+\}', t):
            raise WeaveError('anchor lost in %s::%s: unresolved placeholder %s' % (f['owner'], f['fn'], re.search(r'\$\{\w+\}', t).group(0)))
        return t
    out_lines = [subst(x) for x in out_lines]
    f = dict(f, contract=subst(f['contract']), start=subst(f['start']))
    new_sig = transform_signature(sig, f['ret'])
    text = new_sig + '\n' + f['contract'] + '\n{\n' + (f['start'] + '\n' if f['start'] else '') + '\n'.join(out_lines) + '}\n'
    return text, weave.sha(item), item


def build_unit(repo, unit, outdir):
    os.makedirs(outdir, exist_ok=True)
    parts = ['// GENERATED on every run by tools/verus_extract.py from %s and the working tree of %s\n' % (
        os.path.basename(unit['path']), repo), ''.join('#![feature(%s)]\n' % x for x in unit['features']),
        'use vstd::prelude::*;\nverus! {\n', unit['prelude']]
    meta = []
    # real struct / type-alias items, copied verbatim (attributes above them are not part of the item and are dropped)
    for c in unit['items']:
        cpath = os.path.join(repo, c['file'])
        if not os.path.exists(cpath):
            raise WeaveError('anchor lost: file %s' % c['file'])
        cs = open(cpath).read()
        if c['kind'] == 'type':
            mt = re.search(r'^(pub\s+)?type\s+' + re.escape(c['name']) + r'\b[^;]*;', cs, re.M)
            if not mt:
                raise WeaveError('anchor lost: type %s' % c['name'])
            a, b = mt.start(), mt.end()
        else:
            a, b = weave.find_item(cs, c['kind'], c['name'])
        parts.append(cs[a:b].strip() + '\n')
        meta.append(dict(file=c['file'], owner='-', fn='%s %s' % (c['kind'], c['name']), sha256=weave.sha(cs[a:b]),
                         clause='real type definition, copied verbatim (derive attributes dropped)', real_lines=cs[a:b].count('\n') + 1))
    # real `const` items, copied verbatim (visibility and value untouched)
    for c in unit['consts']:
        cpath = os.path.join(repo, c['file'])
        if not os.path.exists(cpath):
            raise WeaveError('anchor lost: file %s' % c['file'])
        cs = open(cpath).read()
        a, b = weave.find_item(cs, 'const', c['name'])
        parts.append(cs[a:b].strip() + '\n')
        meta.append(dict(file=c['file'], owner='-', fn='const ' + c['name'], sha256=weave.sha(cs[a:b]), clause='real constant, copied verbatim', real_lines=cs[a:b].count('\n') + 1))
    by_owner = {}
    order = []
    for f in unit['fns']:
        text, digest, item = build_fn(repo, f)
        meta.append(dict(file=f['file'], owner=f['owner'], fn=f['fn'], sha256=digest, clause=f['clause'],
                         real_lines=item.count('\n') + 1))
        owner = f['emit_owner']
        if owner:
            if owner not in by_owner:
                by_owner[owner] = []
                order.append(('impl', owner))
            by_owner[owner].append(text)
        else:
            order.append(('fn', text))
    for kind, x in order:
        if kind == 'fn':
            parts.append(x + '\n')
        else:
            parts.append('impl %s {\n%s\n}\n' % (x, '\n'.join(by_owner[x])))
    parts.append(unit['postlude'])
    parts.append('\n} // verus!\nfn main() {}\n')
    path = os.path.join(outdir, unit['name'] + '.rs')
    open(path, 'w').write(''.join(parts))
    return path, meta


VERR = re.compile(r'^error(\[E\d+\])?: (.*)$', re.M)
CONTRACT_FAIL = ('postcondition not satisfied', 'invariant not satisfied', 'precondition not satisfied',
                 'possible arithmetic underflow/overflow', 'possible bit shift underflow/overflow', 'possible division by zero',
                 'decreases not satisfied', 'possible overflow', 'index out of bounds', 'possible')
HINT_FAIL = ('assertion failed', 'assertion not satisfied')


def run_unit(run, o):
    """called by runner.Run.execute through o['run']"""
    import runner
    unit = o['unit']
    res = dict(o)
    res.pop('run', None)
    res.pop('unit', None)
    res.update(failed=[], checks=0, covers=0, covers_sat=0, solver_s=None, wall_s=0, rss_mb=0, reason='', verdict='undecided')
    try:
        path, meta = build_unit(runner.REPO, unit, os.path.join(run.scratch, 'verus'))
    except WeaveError as e:
        res['reason'] = str(e)
        runner.log('[undecided ] %-44s %s' % (o['name'], res['reason']))
        return res
    res['extracted'] = meta
    run.acquire(o['mem_gb'])
    try:
        cmd = ['verus', path, '--triggers-mode', 'silent', '--time', '--num-threads', '4']
        rc, out, wall, rss, to = runner.run_cmd(cmd, os.path.dirname(path), o['timeout_s'], mem_gb=o['mem_gb'] + 4)
    finally:
        run.release(o['mem_gb'])
    logp = os.path.join(run.scratch, 'logs', o['name'] + '.log')
    os.makedirs(os.path.dirname(logp), exist_ok=True)
    open(logp, 'w').write(out)
    res.update(wall_s=round(wall, 1), rss_mb=rss, log=logp)
    m = re.search(r'verification results:: (\d+) verified, (\d+) errors', out)
    ms = re.search(r'total-time:\s+(\d+) ms', out) or re.search(r'smt-run:\s+(\d+) ms', out)
    if ms:
        res['solver_s'] = int(ms.group(1)) / 1000.0
    sm = re.search(r'smt-run\s*:?\s+(\d+) ms', out)
    if sm:
        res['solver_s'] = int(sm.group(1)) / 1000.0
    if to:
        res['reason'] = 'timeout'
    elif m and int(m.group(2)) == 0 and int(m.group(1)) >= len(unit['fns']):
        res['verdict'] = 'discharged'
        res['checks'] = int(m.group(1))
        res['covers'] = res['covers_sat'] = 1  # vacuity: see the `proof fn vacuity_*` must-fail items of the unit
    elif m and int(m.group(2)) > 0:
        errs = [e[1] for e in VERR.findall(out) if not e[1].startswith('aborting')]
        contract = [e for e in errs if any(k in e for k in CONTRACT_FAIL)]
        hints = [e for e in errs if any(k in e for k in HINT_FAIL)]
        other = [e for e in errs if e not in contract and e not in hints]
        res['checks'] = int(m.group(1)) + int(m.group(2))
        if other:
            res['reason'] = 'verus tool/type error: ' + '; '.join(other[:3])[:300]
        else:
            # Every obligation of this unit is discharged on the unchanged tree; one that now fails is reported
            # (Verus gives no model, so the VIOLATION line will say no-failing-input-found unless a Kani
            # companion obligation in the same cone produces the input).
            res['verdict'] = 'failed'
            locs = re.findall(r'error: ([^\n]*)\n\s+--> [^\n]*?:(\d+):\d+\n[^\n]*\n\s*\d+ \|\s*([^\n]*)', out)
            res['failed'] = [dict(id='verus', desc=e[0] + ': ' + e[2].strip()[:160], loc='%s:%s' % (os.path.basename(path), e[1]))
                             for e in locs] or [dict(id='verus', desc=c, loc=path) for c in contract + hints]
    else:
        errs = [e[1] for e in VERR.findall(out)]
        res['reason'] = 'verus produced no result: ' + ('; '.join(errs[:3])[:300] or out[-300:])
    runner.log('[%-10s] %-44s %6.0fs %5d MB  %s' % (res['verdict'], o['name'], wall, rss, res.get('reason', '') if res['verdict'] != 'failed' else '; '.join(f['desc'] for f in res['failed'][:2])))
    return res


def load_obligations():
    d = os.path.join(VERIF, 'verus')
    obls = []
    if not os.path.isdir(d):
        return obls
    for fn in sorted(os.listdir(d)):
        if not fn.endswith('.spec'):
            continue
        unit = parse_spec(os.path.join(d, fn))
        obls.append(dict(
            backend='verus', name='verus_' + unit['name'], props=unit['props'], tier=unit['tier'], kind='verus',
            mem_gb=unit['mem_gb'], timeout_s=unit['timeout_s'], est_s=unit['est_s'], bounded=None, expect='pass', known=None,
            fns=['%s%s' % ('' if f['owner'] in ('-', '') else f['owner'] + '::', f['fn']) for f in unit['fns']],
            clause=' | '.join(f['clause'] for f in unit['fns']), file=fn, unit=unit, run=run_unit, uses=[], profile=None))
    return obls


if __name__ == '__main__':
    u = parse_spec(sys.argv[1])
    p, meta = build_unit(sys.argv[2] if len(sys.argv) > 2 else '/repo', u, sys.argv[3] if len(sys.argv) > 3 else '/var/tmp/verif-scratch/vs')
    print(p)
    for m in meta:
        print(m)

#!/usr/bin/env python3
"""validate_seed.py <seed-dir> <property-id> -- confirms a seeded defect produced by a sub-agent before it is kept:
on a fresh scratch copy of /repo: demo passes without the patch; with the patch the crate compiles, the unit and
doc tests pass, and the demo fails.  On success copies patch.diff, demo.rs, notes.md to /verif/seeded/<id>/ with meta.json."""
import json
import os
import re
import shutil
import subprocess
import sys

seed, pid = sys.argv[1], sys.argv[2]
name = sys.argv[3] if len(sys.argv) > 3 else pid
scr = '/var/tmp/verif-scratch/seedval-' + name
if os.path.exists(scr):
    shutil.rmtree(scr)
os.makedirs(scr)
for x in ('src', 'Cargo.toml', 'Cargo.lock', 'benches'):
    s = os.path.join('/repo', x)
    if os.path.exists(s):
        (shutil.copytree if os.path.isdir(s) else shutil.copy)(s, os.path.join(scr, x))
os.makedirs(os.path.join(scr, 'tests'))
shutil.copy(os.path.join(seed, 'demo.rs'), os.path.join(scr, 'tests', 'demo.rs'))


def run(cmd):
    p = subprocess.run(cmd, cwd=scr, capture_output=True, text=True)
    return p.returncode, p.stdout + p.stderr


def summary(out):
    return '; '.join(re.findall(r'test result: [^\n]*', out)) or out[-200:]


res = {}
rc, out = run(['cargo', 'test', '--offline', '--test', 'demo'])
res['demo_without_patch'] = dict(rc=rc, summary=summary(out))
rc2, out2 = run(['git', 'apply', '--unsafe-paths', '--directory=' + scr, os.path.join(seed, 'patch.diff')])
if rc2 != 0:
    p = subprocess.run(['patch', '-p1', '-i', os.path.join(seed, 'patch.diff')], cwd=scr, capture_output=True, text=True)
    rc2, out2 = p.returncode, p.stdout + p.stderr
res['patch_applies'] = rc2 == 0
rcl, outl = run(['cargo', 'test', '--offline', '--lib'])
res['lib_with_patch'] = dict(rc=rcl, summary=summary(outl))
rcd, outd = run(['cargo', 'test', '--offline', '--doc'])
res['doc_with_patch'] = dict(rc=rcd, summary=summary(outd))
rcx, outx = run(['cargo', 'test', '--offline', '--test', 'demo'])
res['demo_with_patch'] = dict(rc=rcx, summary=summary(outx))
ok = (res['demo_without_patch']['rc'] == 0 and res['patch_applies'] and rcl == 0 and '120 passed' in outl and rcd == 0 and rcx != 0
      and ('test result: FAILED' in outx or 'signal:' in outx))  # a demo may also die of a signal (memory corruption in a data race)
res['valid'] = ok
print(json.dumps(res, indent=1))
if ok:
    dst = os.path.join('/verif/seeded', name)
    os.makedirs(dst, exist_ok=True)
    for f in ('patch.diff', 'demo.rs', 'notes.md'):
        if os.path.exists(os.path.join(seed, f)):
            shutil.copy(os.path.join(seed, f), dst)
    notes = open(os.path.join(seed, 'notes.md')).read() if os.path.exists(os.path.join(seed, 'notes.md')) else ''
    json.dump(dict(property=pid, check_with=[pid], what=notes[:1500], validated=res,
                   ran=['cargo test --offline --test demo (unchanged copy): pass', 'git apply patch.diff', 'cargo test --offline --lib: 120 passed',
                        'cargo test --offline --doc: 6 passed', 'cargo test --offline --test demo: FAILED']),
              open(os.path.join(dst, 'meta.json'), 'w'), indent=1)
shutil.rmtree(scr, ignore_errors=True)
sys.exit(0 if ok else 1)

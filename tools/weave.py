#!/usr/bin/env python3
"""weave.py -- builds the verification copies of the real crate, on every run.

Kani side (annotate in place, on a copy):
  * copies /repo/src, Cargo.toml (dev-dependencies and [[bench]] dropped), Cargo.lock
    to <out>/kani-crate
  * inserts the contract attributes of /verif/contracts/*.contracts above the
    named `fn` items (nothing else in the real text is touched)
  * copies /verif/kani/verif_<file>.rs next to src/<file>.rs and appends
    `#[cfg(kani)] #[path = "verif_<file>.rs"] mod verif;` to src/<file>.rs
    (a child module: sees the file's private items, changes none)
  * copies /verif/kani/vspec.rs and declares `#[cfg(kani)] pub mod vspec;` in lib.rs

Verus side: see tools/verus_extract.py (uses the item locator defined here).

A lost anchor (function renamed / moved / parameter gone) raises WeaveError; the
caller turns that into exit code 2 (UNDECIDED), never into a VIOLATION.
"""
import hashlib
import os
import re
import shutil
import sys

VERIF = os.path.dirname(os.path.dirname(os.path.abspath(__file__)))


class WeaveError(Exception):
    pass


# ----------------------------------------------------------------------------
# A small Rust lexer-aware scanner: enough to match braces while skipping
# strings, char literals, lifetimes and comments.
# ----------------------------------------------------------------------------
def _skip_noncode(s, i):
    """if s[i:] starts a comment/string/char literal return index after it, else None"""
    n = len(s)
    c = s[i]
    if c == '/' and i + 1 < n:
        if s[i + 1] == '/':
            j = s.find('\n', i)
            return n if j < 0 else j
        if s[i + 1] == '*':
            depth = 1
            j = i + 2
            while j < n and depth:
                if s.startswith('/*', j):
                    depth += 1
                    j += 2
                elif s.startswith('*/', j):
                    depth -= 1
                    j += 2
                else:
                    j += 1
            return j
    if c == '"':
        j = i + 1
        while j < n:
            if s[j] == '\\':
                j += 2
            elif s[j] == '"':
                return j + 1
            else:
                j += 1
        return n
    if c == 'r' and i + 1 < n and s[i + 1] in '#"' and (i == 0 or not (s[i - 1].isalnum() or s[i - 1] == '_')):
        m = re.match(r'r(#*)"', s[i:])
        if m:
            close = '"' + m.group(1)
            j = s.find(close, i + len(m.group(0)))
            return n if j < 0 else j + len(close)
    if c == "'":
        # char literal or lifetime
        m = re.match(r"'(\\.[^']*|[^\\'])'", s[i:])
        if m:
            return i + len(m.group(0))
        return i + 1  # lifetime tick
    return None


def match_brace(s, open_idx):
    """s[open_idx] == '{' -> index just after the matching '}'"""
    assert s[open_idx] == '{'
    depth = 0
    i = open_idx
    n = len(s)
    while i < n:
        j = _skip_noncode(s, i)
        if j is not None:
            i = j
            continue
        if s[i] == '{':
            depth += 1
        elif s[i] == '}':
            depth -= 1
            if depth == 0:
                return i + 1
        i += 1
    raise WeaveError('unbalanced braces')


def code_positions(s, start, end):
    """yield indices in [start,end) that are code (not comment / literal)"""
    i = start
    while i < end:
        j = _skip_noncode(s, i)
        if j is not None:
            i = j
            continue
        yield i
        i += 1


def find_impls(s):
    """list of (header, body_start, body_end) for top-level `impl ... {` blocks"""
    out = []
    for m in re.finditer(r'^impl\b[^{;]*\{', s, re.M):
        ob = m.end() - 1
        end = match_brace(s, ob)
        out.append((re.sub(r'\s+', ' ', m.group(0)[:-1].strip()), ob + 1, end - 1))
    return out


def find_fn(s, owner, name):
    """Locate `fn name` owned by `owner` ('-' = free function at top level, else the
    impl header must contain the owner text, e.g. 'GameState', 'FromStr for Square').
    Returns dict(sig_start, body_open, end, attrs_start)."""
    if owner in ('-', '', None):
        cands = [m for m in re.finditer(r'^(pub(\([a-z]+\))?\s+)?fn\s+' + re.escape(name) + r'\b', s, re.M)]
        region = None
    else:
        cands = []
        region = None
        for header, b0, b1 in find_impls(s):
            hdr = header[len('impl'):].strip()
            hdr_n = re.sub(r'<[^>]*>', '', hdr).strip()
            if hdr_n == owner or hdr == owner:
                for m in re.finditer(r'^[ \t]+(pub(\([a-z]+\))?\s+)?fn\s+' + re.escape(name) + r'\b', s[b0:b1], re.M):
                    cands.append((m, b0))
        cands = [_Shift(m, off) for m, off in cands]
    if len(cands) != 1:
        raise WeaveError('anchor lost: fn %s :: %s found %d times' % (owner, name, len(cands)))
    m = cands[0]
    sig_start = m.start()
    # body open: first '{' in code after the signature
    body_open = None
    for i in code_positions(s, m.end(), len(s)):
        if s[i] == '{':
            body_open = i
            break
        if s[i] == ';':
            break
    if body_open is None:
        raise WeaveError('anchor lost: fn %s has no body' % name)
    end = match_brace(s, body_open)
    # attributes / doc comments directly above
    line_start = s.rfind('\n', 0, sig_start) + 1
    attrs_start = line_start
    while True:
        prev_end = attrs_start - 1
        if prev_end <= 0:
            break
        prev_start = s.rfind('\n', 0, prev_end) + 1
        line = s[prev_start:prev_end].strip()
        if line.startswith('#[') or line.startswith('///') or line.endswith(')]') and not line.endswith(';'):
            attrs_start = prev_start
        else:
            break
    return dict(sig_start=line_start, sig_end=body_open, body_open=body_open, end=end, attrs_start=attrs_start)


class _Shift:
    def __init__(self, m, off):
        self._m, self._off = m, off

    def start(self):
        return self._m.start() + self._off

    def end(self):
        return self._m.end() + self._off


def find_item(s, kind, name):
    """top-level const / macro_rules / struct / enum item -> (start, end)"""
    if kind == 'const':
        m = re.search(r'^[ \t]*(pub(\([a-z]+\))?\s+)?const\s+' + re.escape(name) + r'\s*:', s, re.M)
        if not m:
            raise WeaveError('anchor lost: const %s' % name)
        depth = 0
        for i in code_positions(s, m.end(), len(s)):
            if s[i] in '[({':
                depth += 1
            elif s[i] in '])}':
                depth -= 1
            elif s[i] == ';' and depth == 0:
                return m.start(), i + 1
        raise WeaveError('const %s unterminated' % name)
    if kind == 'macro':
        m = re.search(r'^macro_rules!\s+' + re.escape(name) + r'\s*\{', s, re.M)
        if not m:
            raise WeaveError('anchor lost: macro %s' % name)
        return m.start(), match_brace(s, m.end() - 1)
    if kind in ('struct', 'enum'):
        m = re.search(r'^(pub\s+)?' + kind + r'\s+' + re.escape(name) + r'\b[^;{(]*([{(;])', s, re.M)
        if not m:
            raise WeaveError('anchor lost: %s %s' % (kind, name))
        if m.group(2) == '{':
            return m.start(), match_brace(s, m.end() - 1)
        j = s.find(';', m.end())
        return m.start(), j + 1
    raise ValueError(kind)


def fn_params(sig):
    """parameter names in a signature text"""
    m = re.search(r'\((.*)\)', sig, re.S)
    if not m:
        return []
    names = []
    depth = 0
    cur = ''
    for ch in m.group(1):
        if ch in '<([':
            depth += 1
        elif ch in '>)]':
            depth -= 1
        if ch == ',' and depth == 0:
            names.append(cur)
            cur = ''
        else:
            cur += ch
    names.append(cur)
    out = []
    for p in names:
        p = p.strip()
        if not p:
            continue
        if 'self' in p.split(':')[0]:
            out.append('self')
        else:
            out.append(p.split(':')[0].replace('mut ', '').strip())
    return out


# ----------------------------------------------------------------------------
# contracts file format
#   @@ src/engine.rs :: GameState :: threatened_pieces [:: params a,b,c] [:: profile p1,p2]
#   #[kani::requires(...)]
#   #[kani::ensures(|r| ...)]
# ----------------------------------------------------------------------------
def load_contracts():
    cdir = os.path.join(VERIF, 'contracts')
    entries = []
    if not os.path.isdir(cdir):
        return entries
    for fn in sorted(os.listdir(cdir)):
        if not fn.endswith('.contracts'):
            continue
        cur = None
        for line in open(os.path.join(cdir, fn)):
            if line.startswith('@@'):
                parts = [p.strip() for p in line[2:].split('::')]
                cur = dict(file=parts[0], owner=parts[1], fn=parts[2], params=[], attrs=[], src=fn)
                cur['key'] = parts[2] if parts[1] in ('-', '') else parts[1] + '::' + parts[2]
                for extra in parts[3:]:
                    if extra.startswith('params'):
                        cur['params'] = [x.strip() for x in extra[len('params'):].split(',') if x.strip()]
                entries.append(cur)
            elif cur is not None and line.strip() and not line.lstrip().startswith('//'):
                cur['attrs'].append(line.rstrip('\n'))
    return entries


def sha(s):
    return hashlib.sha256(s.encode()).hexdigest()


def strip_inactive_contract_harnesses(text, active):
    """Only the harnesses in `active` stay harnesses in this copy: for every other fn the `#[kani::...]`
    attribute lines are removed (the fn stays as dead code).  Needed because (a) proof_for_contract /
    stub_verified only compile when the named functions carry contracts in this copy and (b) Kani rejects
    a build in which a function carries contract attributes and is also the target of a plain kani::stub."""
    lines = text.split('\n')
    out = []
    i = 0
    while i < len(lines):
        if lines[i].lstrip().startswith('#[kani::'):
            j = i
            while j < len(lines) and lines[j].lstrip().startswith('#['):
                j += 1
            m = re.match(r'\s*(pub\s+)?fn\s+(\w+)', lines[j]) if j < len(lines) else None
            if m and m.group(2) in active:
                out.extend(lines[i:j])
            else:
                out.extend(l for l in lines[i:j] if not l.lstrip().startswith('#[kani::'))
                out.append('#[allow(dead_code)]')
            i = j
            continue
        out.append(lines[i])
        i += 1
    return '\n'.join(out)


def weave_kani(repo, out, uses=(), active=()):
    """uses: contract keys ('fn' or 'Owner::fn') to weave in place; active: names of the contract
    harnesses that are run on this copy.  Returns metadata: functions under contract with body hashes"""
    crate = os.path.join(out, 'kani-crate')
    if os.path.exists(crate):
        shutil.rmtree(crate)
    os.makedirs(crate)
    shutil.copytree(os.path.join(repo, 'src'), os.path.join(crate, 'src'))
    shutil.copy(os.path.join(repo, 'Cargo.lock'), crate)
    # Cargo.toml without dev-dependencies / benches (criterion is not needed and benches/ is not copied)
    toml = open(os.path.join(repo, 'Cargo.toml')).read()
    toml = re.sub(r'\[dev-dependencies\].*?(?=^\[|\Z)', '', toml, flags=re.S | re.M)
    toml = re.sub(r'\[\[bench\]\].*?(?=^\[|\Z)', '', toml, flags=re.S | re.M)
    toml += '\n[lints.rust]\nunexpected_cfgs = { level = "allow", check-cfg = [\'cfg(kani)\'] }\n'
    open(os.path.join(crate, 'Cargo.toml'), 'w').write(toml)
    os.makedirs(os.path.join(crate, '.cargo'))
    open(os.path.join(crate, '.cargo', 'config.toml'), 'w').write('[net]\noffline = true\n')

    meta = {'functions_under_contract': [], 'appended_modules': []}
    by_file = {}
    available = load_contracts()
    keys = set(e['key'] for e in available)
    for u in uses:
        if u not in keys:
            raise WeaveError('contract %s is not defined in /verif/contracts' % u)
    for e in available:
        if e['key'] in uses:
            by_file.setdefault(e['file'], []).append(e)
    for rel, entries in by_file.items():
        path = os.path.join(crate, rel)
        if not os.path.exists(path):
            raise WeaveError('anchor lost: file %s' % rel)
        s = open(path).read()
        # locate all first, then insert from the bottom up
        located = []
        for e in entries:
            loc = find_fn(s, e['owner'], e['fn'])
            sig = s[loc['sig_start']:loc['sig_end']]
            have = fn_params(sig)
            for p in e['params']:
                if p not in have:
                    raise WeaveError('anchor lost: fn %s::%s has no parameter %s' % (e['owner'], e['fn'], p))
            body = s[loc['sig_start']:loc['end']]
            meta['functions_under_contract'].append(
                dict(file=rel, owner=e['owner'], fn=e['fn'], sha256=sha(body), clauses=len(e['attrs'])))
            located.append((loc['sig_start'], e))
        for pos, e in sorted(located, key=lambda x: -x[0]):
            indent = re.match(r'[ \t]*', s[pos:]).group(0)
            text = ''.join(indent + a.strip() + '\n' for a in e['attrs'])
            s = s[:pos] + text + s[pos:]
        open(path, 'w').write(s)

    kdir = os.path.join(VERIF, 'kani')
    for fn in sorted(os.listdir(kdir)):
        if fn.startswith('verif_') and fn.endswith('.rs'):
            base = fn[len('verif_'):]
            target = os.path.join(crate, 'src', base)
            if not os.path.exists(target):
                raise WeaveError('anchor lost: src/%s (for %s)' % (base, fn))
            txt = open(os.path.join(kdir, fn)).read()
            open(os.path.join(crate, 'src', fn), 'w').write(strip_inactive_contract_harnesses(txt, set(active)))
            with open(target, 'a') as f:
                f.write('\n#[cfg(kani)]\n#[path = "%s"]\npub(crate) mod verif;\n' % fn)
            meta['appended_modules'].append(fn)
    shutil.copy(os.path.join(kdir, 'vspec.rs'), os.path.join(crate, 'src', 'vspec.rs'))
    with open(os.path.join(crate, 'src', 'lib.rs'), 'a') as f:
        f.write('\n#[cfg(kani)]\npub mod vspec;\n')
    return meta


if __name__ == '__main__':
    repo = sys.argv[1] if len(sys.argv) > 1 else '/repo'
    out = sys.argv[2] if len(sys.argv) > 2 else '/var/tmp/verif-scratch/manual'
    uses = sys.argv[3].split(',') if len(sys.argv) > 3 and sys.argv[3] else []
    active = sys.argv[4].split(',') if len(sys.argv) > 4 else []
    try:
        m = weave_kani(repo, out, uses, active)
    except WeaveError as e:
        print('UNDECIDED reason=%s' % e)
        sys.exit(2)
    print('woven into', out, ':', len(m['functions_under_contract']), 'functions under contract,', len(m['appended_modules']), 'modules')

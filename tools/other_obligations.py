#!/usr/bin/env python3
"""other_obligations.py -- obligations that are not discharged by Kani or Verus.

C18 (level `other`):
  * c18_send_sync   -- type-level: `fn a<T: Send + Sync>() {}` instantiated at every public state type of
                       the real crate; discharged by rustc's trait solver while checking a tiny client crate
                       that depends on a copy of /repo's working tree (stable toolchain, no cfg).
  * c18_no_interior_mutability -- source scan of /repo/src: no unsafe, static mut, Cell/RefCell/UnsafeCell/
                       OnceCell, Mutex/RwLock, Atomic*, thread_local!, lazy_static; every pub fn of the state
                       types takes self by shared reference or by value.
"""
import os
import re
import shutil
import sys

sys.path.insert(0, os.path.dirname(os.path.abspath(__file__)))

TYPES = ['GameState', 'PieceBoardState', 'PieceBoard', 'PlayPhase', 'Phase', 'Action', 'Square', 'Piece', 'Direction',
         'Zobrist', 'PushPullState', 'Terminal', 'List<Zobrist>', 'List<u64>']


def _base(o):
    r = dict(o)
    r.pop('run', None)
    r.update(failed=[], checks=0, covers=1, covers_sat=1, solver_s=None, wall_s=0, rss_mb=0, reason='', verdict='undecided')
    return r


def run_send_sync(run, o):
    import runner
    res = _base(o)
    d = os.path.join(run.scratch, 'c18')
    if os.path.exists(d):
        shutil.rmtree(d)
    os.makedirs(os.path.join(d, 'client', 'src'))
    shutil.copytree(os.path.join(runner.REPO, 'src'), os.path.join(d, 'repo', 'src'))
    shutil.copy(os.path.join(runner.REPO, 'Cargo.lock'), os.path.join(d, 'repo'))
    toml = open(os.path.join(runner.REPO, 'Cargo.toml')).read()
    toml = re.sub(r'\[dev-dependencies\].*?(?=^\[|\Z)', '', toml, flags=re.S | re.M)
    toml = re.sub(r'\[\[bench\]\].*?(?=^\[|\Z)', '', toml, flags=re.S | re.M)
    open(os.path.join(d, 'repo', 'Cargo.toml'), 'w').write(toml)
    open(os.path.join(d, 'client', 'Cargo.toml'), 'w').write(
        '[package]\nname = "c18_client"\nversion = "0.0.0"\nedition = "2021"\n\n[dependencies]\narimaa_engine_step = { path = "../repo" }\n')
    shutil.copy(os.path.join(runner.REPO, 'Cargo.lock'), os.path.join(d, 'client', 'Cargo.lock'))
    lines = ['use arimaa_engine_step::*;', 'fn shareable<T: Send + Sync>() {}', 'fn main() {']
    for t in TYPES:
        lines.append('    shareable::<%s>();' % t)
    lines += ['    // a state can be handed to other threads and expanded there',
              '    let s = std::sync::Arc::new(GameState::initial());',
              '    let t = { let s = s.clone(); std::thread::spawn(move || s.valid_actions().len()) };',
              '    let _ = (s.valid_actions().len(), t.join());', '}']
    open(os.path.join(d, 'client', 'src', 'main.rs'), 'w').write('\n'.join(lines) + '\n')
    # the client's lock file must know the client package: let cargo complete it offline
    os.remove(os.path.join(d, 'client', 'Cargo.lock'))
    rc, out, wall, rss, to = runner.run_cmd(['cargo', 'check', '--offline', '--quiet'], os.path.join(d, 'client'), 900)
    logp = os.path.join(run.scratch, 'logs', o['name'] + '.log')
    os.makedirs(os.path.dirname(logp), exist_ok=True)
    open(logp, 'w').write(out)
    res.update(wall_s=round(wall, 1), rss_mb=rss, log=logp, checks=len(TYPES))
    if rc == 0 and not to:
        res['verdict'] = 'discharged'
    else:
        errs = re.findall(r'error\[E0277\][^\n]*\n(?:[^\n]*\n){0,12}', out)
        autotrait = [e for e in errs if re.search(r'cannot be (sent|shared) between threads safely', e)]
        if autotrait:
            res['verdict'] = 'failed'
            res['failed'] = [dict(id='rustc', desc=re.sub(r'\s+', ' ', e)[:400], loc='c18 client crate') for e in autotrait[:3]]
        else:
            res['reason'] = 'client crate did not compile for another reason: ' + (re.search(r'error[^\n]*', out).group(0) if re.search(r'error[^\n]*', out) else out[-300:])
    runner.log('[%-10s] %-44s %6.0fs %5d MB  %s' % (res['verdict'], o['name'], wall, rss, res['reason'] or '; '.join(f['desc'][:120] for f in res['failed'])))
    return res


FORBIDDEN = [r'\bunsafe\b', r'\bstatic\s+mut\b', r'\bCell\s*<', r'\bRefCell\b', r'\bUnsafeCell\b', r'\bOnceCell\b', r'\bOnceLock\b',
             r'\bLazyLock\b', r'\bMutex\b', r'\bRwLock\b', r'\bAtomic[A-Z]\w*', r'thread_local!', r'lazy_static!', r'\bRc\b']


def strip_comments_and_strings(s):
    import weave
    out = []
    i = 0
    n = len(s)
    while i < n:
        j = weave._skip_noncode(s, i)
        if j is not None:
            out.append(' ' * (j - i) if '\n' not in s[i:j] else re.sub(r'[^\n]', ' ', s[i:j]))
            i = j
        else:
            out.append(s[i])
            i += 1
    return ''.join(out)


def run_scan(run, o):
    import runner
    res = _base(o)
    hits = []
    nfiles = 0
    for fn in sorted(os.listdir(os.path.join(runner.REPO, 'src'))):
        if not fn.endswith('.rs') or fn in ('engine_tests.rs',):
            continue
        nfiles += 1
        txt = strip_comments_and_strings(open(os.path.join(runner.REPO, 'src', fn)).read())
        # drop #[cfg(test)] mod ... { } blocks
        txt = re.sub(r'#\[cfg\(test\)\]\s*mod\s+\w+\s*\{.*\Z', '', txt, flags=re.S)
        for pat in FORBIDDEN:
            for m in re.finditer(pat, txt):
                line = txt.count('\n', 0, m.start()) + 1
                hits.append(dict(id='scan', desc='interior mutability / shared mutable state construct `%s`' % m.group(0), loc='src/%s:%d' % (fn, line)))
        if fn in ('engine.rs', 'zobrist.rs', 'linked_list.rs', 'square.rs', 'action.rs'):
            for m in re.finditer(r'pub\s+fn\s+(\w+)\s*(<[^>]*>)?\s*\(\s*&\s*mut\s+self', txt):
                line = txt.count('\n', 0, m.start()) + 1
                hits.append(dict(id='scan', desc='public method `%s` takes &mut self: a constructed state can be modified' % m.group(1), loc='src/%s:%d' % (fn, line)))
    res['checks'] = nfiles * (len(FORBIDDEN) + 1)
    if hits:
        res['verdict'] = 'failed'
        res['failed'] = hits[:10]
    else:
        res['verdict'] = 'discharged'
    runner.log('[%-10s] %-44s %6.0fs %5d MB  %s' % (res['verdict'], o['name'], 0, 0, '; '.join(h['desc'] + ' @ ' + h['loc'] for h in hits[:3])))
    return res


def load():
    common = dict(props=['C18'], tier='quick', mem_gb=1, timeout_s=900, est_s=20, bounded=None, expect='pass', known=None,
                  uses=[], profile=None, file=None)
    return [
        dict(common, backend='rustc', name='c18_send_sync', kind='type-level', run=run_send_sync,
             fns=TYPES, clause='every public state type of the real crate is Send + Sync (rustc trait solver on the real type '
                                'definitions; replacing Arc by Rc in the history list makes this obligation fail); a state inside an '
                                'Arc can be moved to and expanded on another thread'),
        dict(common, backend='scan', name='c18_no_interior_mutability', kind='scan', run=run_scan,
             fns=['src/*.rs'], clause='no unsafe, static mut, Cell/RefCell/UnsafeCell/Once*, Mutex/RwLock, Atomic*, thread_local!, '
                                      'lazy_static!, Rc in /repo/src (outside test modules); no public method of the state types takes &mut self'),
    ]

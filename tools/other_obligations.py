#!/usr/bin/env python3
"""other_obligations.py -- obligations that are not run by Kani or Verus (type-level facts
discharged by rustc while the woven crate is built, source scans).  Filled in for C18."""


def load():
    return []

#!/usr/bin/env python3
"""registry.py -- the obligation registry is read from the harness files themselves.

Every obligation is announced by a comment block directly above its harness:

    // @obl props=C02,C10,C19 tier=quick kind=harness-contract mem=4 timeout=600
    // @fns PieceBoard::take_action PieceBoard::move_piece
    // @clause forall i: at(new,i) == after_step_at(old,src,dst,i) ...
    // @bounded history length <= 4            (optional: marks a bounded stand-in)
    // @expect fail                            (optional: canary, must FAIL)
    // @known D4                               (optional: id in known_findings.json)
    #[kani::proof]
    fn c02_pb_take_action() { .. }

Verus obligations are registered in /verif/verus/<unit>.spec (see verus_extract.py) and
type-level / scan obligations in tools/other_obligations.py.
"""
import os
import re

VERIF = os.path.dirname(os.path.dirname(os.path.abspath(__file__)))

MODPATH = {
    'verif_engine.rs': 'engine::verif',
    'verif_zobrist.rs': 'zobrist::verif',
    'verif_square.rs': 'square::verif',
    'verif_action.rs': 'action::verif',
    'verif_piece.rs': 'piece::verif',
    'verif_direction.rs': 'direction::verif',
    'verif_linked_list.rs': 'linked_list::verif',
    'verif_display.rs': 'display::verif',
    'verif_bit_manip.rs': 'bit_manip::verif',
    'verif_bit_mask.rs': 'bit_mask::verif',
}


def profile_name(uses):
    """one woven copy of the crate per distinct set of in-place contracts"""
    if not uses:
        return 'plain'
    import hashlib
    return 'c_' + hashlib.sha1(' '.join(sorted(uses)).encode()).hexdigest()[:10]


def parse_kv(line):
    d = {}
    for tok in line.split():
        if '=' in tok:
            k, v = tok.split('=', 1)
            d[k] = v
    return d


def load_kani_obligations():
    obls = []
    kdir = os.path.join(VERIF, 'kani')
    for fn in sorted(os.listdir(kdir)):
        if not (fn.startswith('verif_') and fn.endswith('.rs')):
            continue
        lines = open(os.path.join(kdir, fn)).read().split('\n')
        i = 0
        submods = []  # not supported: harnesses live at top level of the verif module
        while i < len(lines):
            m = re.match(r'\s*// @obl\s+(.*)', lines[i])
            if not m:
                i += 1
                continue
            kv = parse_kv(m.group(1))
            o = dict(
                backend='kani', file=fn, props=kv.get('props', '').split(','), tier=kv.get('tier', 'quick'),
                kind=kv.get('kind', 'harness-contract'), mem_gb=float(kv.get('mem', '6')),
                timeout_s=int(kv.get('timeout', '1800')), fns=[], clause='', bounded=None, expect='pass',
                known=None, contracts=kv.get('contracts') == 'yes', stubbing=kv.get('stubbing') == 'yes',
                est_s=int(kv.get('est', '60')), uses=[])
            i += 1
            while i < len(lines):
                l = lines[i].strip()
                mm = re.match(r'// @(\w+)\s*(.*)', l)
                if mm:
                    tag, rest = mm.group(1), mm.group(2)
                    if tag == 'fns':
                        o['fns'] += rest.split()
                    elif tag == 'clause':
                        o['clause'] += (' ' if o['clause'] else '') + rest
                    elif tag == 'bounded':
                        o['bounded'] = rest
                    elif tag == 'expect':
                        o['expect'] = rest.strip()
                    elif tag == 'known':
                        o['known'] = rest.strip()
                    elif tag == 'uses':
                        o['uses'] += rest.split()
                    elif tag == 'keep':
                        o['keep'] = o.get('keep', []) + rest.split()
                    i += 1
                    continue
                if l.startswith('//') or l.startswith('#['):
                    if 'proof_for_contract' in l or 'stub_verified' in l:
                        o['contracts'] = True
                    if 'kani::stub' in l:
                        o['stubbing'] = True
                    i += 1
                    continue
                mm = re.match(r'(pub\s+)?fn\s+(\w+)', l)
                if mm:
                    o['name'] = mm.group(2)
                    o['harness'] = MODPATH[fn] + '::' + mm.group(2)
                break
            o['uses'] = sorted(set(o['uses']))
            o['profile'] = profile_name(o['uses'])
            if 'name' not in o:
                raise SystemExit('registry: @obl without harness in %s near line %d' % (fn, i))
            obls.append(o)
    names = [o['name'] for o in obls]
    dup = set(n for n in names if names.count(n) > 1)
    if dup:
        raise SystemExit('registry: duplicate obligation names %s' % dup)
    return obls


if __name__ == '__main__':
    import json
    print(json.dumps(load_kani_obligations(), indent=1))

#!/usr/bin/env python3
"""selftest.py -- mutation self-test of the checks (development aid, not part of any registered check).

For every patch under /verif/meta/mutants/*.patch and /verif/seeded/*/patch.diff: copy /repo's working tree to a
scratch directory (never /repo itself), apply the patch, optionally confirm that the crate's own test suite still
passes, run ./check <property> against the copy (VERIF_REPO) and record exit code and failing obligations in
/verif/meta/selftest_results.json.  A second list, /verif/meta/harmless/*.patch, holds behaviour-preserving
edits: for those every check must stay green.

usage: selftest.py [--only name,name] [--tests] [--harmless]
"""
import json
import os
import re
import shutil
import subprocess
import sys
import time

VERIF = os.path.dirname(os.path.dirname(os.path.abspath(__file__)))
SCR = '/var/tmp/verif-scratch/selftest-%d' % os.getpid()  # one scratch copy per invocation: several may run side by side


def sh(cmd, cwd=None, env=None, timeout=7200):
    p = subprocess.run(cmd, cwd=cwd, env=env, capture_output=True, text=True, timeout=timeout)
    return p.returncode, p.stdout + p.stderr


def mutants(harmless=False):
    out = []
    if harmless:
        d = os.path.join(VERIF, 'meta', 'harmless')
        if os.path.isdir(d):
            for fn in sorted(os.listdir(d)):
                if fn.endswith('.patch'):
                    note = open(os.path.join(d, fn[:-6] + '.txt')).read() if os.path.exists(os.path.join(d, fn[:-6] + '.txt')) else ''
                    m = re.search(r'props:\s*(\S+)', note)
                    out.append(dict(name='harmless/' + fn[:-6], patch=os.path.join(d, fn), props=m.group(1).split(',') if m else [], note=note))
        return out
    d = os.path.join(VERIF, 'meta', 'mutants')
    for fn in sorted(os.listdir(d)):
        if fn.endswith('.patch'):
            note = open(os.path.join(d, fn[:-6] + '.txt')).read()
            props = re.search(r'props:\s*(\S+)', note).group(1).split(',')
            out.append(dict(name=fn[:-6], patch=os.path.join(d, fn), props=props, note=note))
    sd = os.path.join(VERIF, 'seeded')
    if os.path.isdir(sd):
        for name in sorted(os.listdir(sd)):
            pd = os.path.join(sd, name, 'patch.diff')
            mj = os.path.join(sd, name, 'meta.json')
            if os.path.exists(pd) and os.path.exists(mj):
                meta = json.load(open(mj))
                out.append(dict(name='seeded/' + name, patch=pd, props=meta.get('check_with', [meta['property']]), note=meta.get('what', '')))
    return out


def main():
    args = sys.argv[1:]
    only = None
    if '--only' in args:
        only = args[args.index('--only') + 1].split(',')
    run_tests = '--tests' in args
    harmless = '--harmless' in args
    respath = os.path.join(VERIF, 'meta', 'selftest_results.json')
    results = json.load(open(respath)) if os.path.exists(respath) else {}
    for m in mutants(harmless):
        if only and not any(o in m['name'] for o in only):
            continue
        if os.path.exists(SCR):
            shutil.rmtree(SCR)
        os.makedirs(SCR)
        for x in ('src', 'Cargo.toml', 'Cargo.lock'):
            src = os.path.join('/repo', x)
            (shutil.copytree if os.path.isdir(src) else shutil.copy)(src, os.path.join(SCR, x))
        rc, out = sh(['git', 'apply', '--unsafe-paths', '--directory=' + SCR, m['patch']], cwd='/')
        if rc != 0:
            rc, out = sh(['patch', '-p1', '-i', m['patch']], cwd=SCR)
        if rc != 0:
            results[m['name']] = dict(error='patch does not apply: ' + out[-300:])
            print(m['name'], 'PATCH FAILED')
            continue
        entry = dict(props=m['props'], note=m['note'].strip(), checks={})
        if run_tests:
            rc, out = sh(['cargo', 'test', '--offline', '--lib'], cwd=SCR)
            mm = re.search(r'test result: (\w+)\. (\d+) passed; (\d+) failed', out)
            entry['own_tests'] = mm.group(0) if mm else 'build failed'
        for prop in m['props']:
            env = dict(os.environ)
            env['VERIF_REPO'] = SCR
            t0 = time.time()
            rc, out = sh([os.path.join(VERIF, 'check'), prop], cwd=VERIF, env=env)
            failed = re.findall(r'\[failed\s*\]\s+(\S+)', out)
            undec = re.findall(r'\[undecided\s*\]\s+(\S+)', out)
            viol = [l for l in out.split('\n') if l.startswith('VIOLATION')]
            entry['checks'][prop] = dict(rc=rc, failed_obligations=failed, undecided=undec, wall_s=round(time.time() - t0),
                                         with_input=sum(1 for v in viol if 'no-failing-input-found' not in v), violations=len(viol))
            print('%-46s %s rc=%d failed=%s undecided=%s (%ds)' % (m['name'], prop, rc, ','.join(failed), ','.join(undec), time.time() - t0), flush=True)
        results = json.load(open(respath)) if os.path.exists(respath) else {}  # merge with concurrent invocations
        results[m['name']] = entry
        json.dump(results, open(respath, 'w'), indent=1)
    shutil.rmtree(SCR, ignore_errors=True)


if __name__ == '__main__':
    main()

#!/usr/bin/env python3
"""runner.py -- runs the obligations in a property's cone and turns tool output into
verdicts, replay files and evidence.  See DESIGN.md section 4.

exit codes of ./check:  0 = every obligation discharged
                        1 = some obligation FAILED (VIOLATION line printed)
                        2 = UNDECIDED (lost anchor, tool error, timeout, vacuity) -- never an alarm
"""
import concurrent.futures as cf
import hashlib
import json
import os
import re
import resource
import shutil
import subprocess
import sys
import threading
import time

sys.path.insert(0, os.path.dirname(os.path.abspath(__file__)))
import registry  # noqa: E402
import weave  # noqa: E402

VERIF = weave.VERIF
REPO = os.environ.get('VERIF_REPO', '/repo')
SCRATCH_ROOT = os.environ.get('VERIF_SCRATCH', '/var/tmp/verif-scratch')
TOTAL_MEM_GB = float(os.environ.get('VERIF_MEM_GB', '52'))
MAX_JOBS = int(os.environ.get('VERIF_JOBS', '14'))
# --default-unwind only matters for harnesses without an explicit #[kani::unwind]: on the unchanged tree those are loop-free;
# if a change introduces a loop into code they reach (e.g. a scan over the 64 squares) the bound keeps CBMC from unrolling forever.
KANI_FLAGS = ['-Z', 'function-contracts', '-Z', 'stubbing', '--default-unwind', '66']

ENV = dict(os.environ)
ENV['CARGO_NET_OFFLINE'] = 'true'
ENV.pop('RUSTUP_TOOLCHAIN', None)


def log(*a):
    print(*a, file=sys.stderr, flush=True)


def _limit(mem_gb):
    def f():
        lim = int(mem_gb * (1 << 30))
        try:
            resource.setrlimit(resource.RLIMIT_AS, (lim, lim))
        except Exception:
            pass
        os.setsid()
    return f


def run_cmd(cmd, cwd, timeout, mem_gb=None, env=None):
    """-> (rc, output, wall_s, maxrss_mb, timed_out)"""
    t0 = time.time()
    full = ['/usr/bin/time', '-f', '@@MAXRSS_KB=%M', '--'] + cmd
    p = subprocess.Popen(full, cwd=cwd, stdout=subprocess.PIPE, stderr=subprocess.STDOUT, env=env or ENV,
                         preexec_fn=_limit(mem_gb) if mem_gb else os.setsid, text=True, errors='replace')
    timed_out = False
    try:
        out, _ = p.communicate(timeout=timeout)
    except subprocess.TimeoutExpired:
        timed_out = True
        try:
            os.killpg(p.pid, 9)
        except Exception:
            pass
        out, _ = p.communicate()
    wall = time.time() - t0
    m = re.search(r'@@MAXRSS_KB=(\d+)', out or '')
    rss = int(m.group(1)) // 1024 if m else 0
    return p.returncode, out or '', wall, rss, timed_out


# ----------------------------------------------------------------------------
# Kani output classification
# ----------------------------------------------------------------------------
CHECK_RE = re.compile(
    r'Check \d+: (?P<id>[^\n]+)\n\s+- Status: (?P<status>\w+)\n\s+- Description: "(?P<desc>.*?)"\n\s+- Location: (?P<loc>[^\n]*)', re.S)


def classify_kani(out, rc, timed_out, expect):
    """-> dict(verdict, checks, failed[list], covers, covers_sat, reason)"""
    r = dict(verdict='undecided', checks=0, failed=[], covers=0, covers_sat=0, reason='', solver_s=None)
    if timed_out:
        r['reason'] = 'timeout'
        return r
    m = re.search(r'Verification Time: ([0-9.]+)s', out)
    if m:
        r['solver_s'] = float(m.group(1))
    m = re.search(r'\*\* (\d+) of (\d+) failed', out)
    if m:
        r['checks'] = int(m.group(2))
    m = re.search(r'\*\* (\d+) of (\d+) cover properties satisfied', out)
    if m:
        r['covers_sat'], r['covers'] = int(m.group(1)), int(m.group(2))
    fails = []
    undetermined = 0
    for c in CHECK_RE.finditer(out):
        st = c.group('status')
        if st == 'FAILURE':
            fails.append(dict(id=c.group('id'), desc=c.group('desc'), loc=c.group('loc').strip()))
        elif st == 'UNDETERMINED':
            undetermined += 1
    r['failed'] = fails
    if 'VERIFICATION:- SUCCESSFUL' in out:
        if r['checks'] == 0:
            r['reason'] = 'vacuous: zero checks generated'
        elif r['covers'] != r['covers_sat']:
            r['reason'] = 'vacuity guard: %d of %d covers satisfied' % (r['covers_sat'], r['covers'])
        elif r['covers'] == 0 and expect == 'pass':
            r['reason'] = 'vacuity guard: harness has no cover'
        else:
            r['verdict'] = 'discharged'
        return r
    if 'VERIFICATION:- FAILED' in out:
        real = [f for f in fails if 'unwinding assertion' not in f['desc']]
        if not fails and re.search(r'^Failed Checks: ', out, re.M) and re.search(r'\*\* [1-9]\d* of \d+ failed', out):
            fails = [dict(id='unparsed', desc=m_.strip()[:300], loc='(location not parsed)') for m_ in re.findall(r'^Failed Checks: ([^\n]*)', out, re.M)]
            real = [f for f in fails if 'unwinding assertion' not in f['desc']]
        if not fails:
            if 'out of memory' in out.lower() or 'bad_alloc' in out:
                r['reason'] = 'solver out of memory (cap reached)'
            else:
                m2 = re.search(r'CBMC failed[^\n]*|CBMC timed out[^\n]*|error[^\n]*', out)
                r['reason'] = 'verifier gave no check results: ' + (m2.group(0) if m2 else 'unknown')
            return r
        if not real:
            r['reason'] = 'only unwinding assertions failed (bound too small), %d undetermined' % undetermined
            return r
        if any('unwinding assertion' in f['desc'] for f in fails):
            # a real failure next to an unwinding failure: the real one may be spurious only if it is
            # *after* the loop; CBMC reports those as UNDETERMINED, so a FAILURE status is real.
            pass
        r['verdict'] = 'failed'
        r['failed'] = real
        return r
    if re.search(r'error(\[E\d+\])?:', out):
        r['reason'] = 'tool/compile error: ' + (re.search(r'error[^\n]*', out).group(0))[:300]
    elif 'out of memory' in out.lower() or 'bad_alloc' in out or rc in (-9, 137, -6, 134):
        r['reason'] = 'out of memory / killed (rc=%s)' % rc
    else:
        r['reason'] = 'no verdict in tool output (rc=%s)' % rc
    return r


# ----------------------------------------------------------------------------
class Run:
    def __init__(self, prop, tier, keep=False):
        self.prop = prop
        self.tier = tier
        self.keep = keep
        self.scratch = os.path.join(SCRATCH_ROOT, 'run-%d' % os.getpid())
        self.t0 = time.time()
        self.results = []
        self.meta = {}
        self.lock = threading.Lock()
        self.mem_in_use = 0.0
        self.cv = threading.Condition()
        self.pruned = {}

    # -------------------------------------------------------------- kani
    def prepare_kani(self, profile, uses, active):
        """weave + build.  If the build fails with errors located in the appended harness modules (a harness refers to
        an item that no longer exists in /repo: lost anchor), the offending harness functions are pruned and the build is
        retried, so that one lost anchor does not take the other obligations of the cone down with it."""
        out = os.path.join(self.scratch, profile)
        meta = weave.weave_kani(REPO, out, uses, active)
        self.meta[profile] = meta
        crate = os.path.join(out, 'kani-crate')
        cmd = ['cargo', 'kani', '--only-codegen'] + KANI_FLAGS
        pruned = {}
        for attempt in range(12):
            rc, o, wall, rss, to = run_cmd(cmd, crate, 1800)
            open(os.path.join(out, 'build.log'), 'a').write(o)
            if rc == 0 and not to:
                break
            located = re.findall(r'error(?:\[E\d+\])?: ([^\n]*)\n(?:[^\n]*\n){0,3}?\s*--> src/(verif_\w+\.rs|vspec\.rs):(\d+):\d+', o)
            progress = False
            # bottom-up per file, so that pruning one function does not shift the line numbers of the others
            gone = {}  # file -> [(first line, last line)] removed in this attempt, in the numbering the errors refer to
            for msg, fn, line in sorted(set(located), key=lambda x: (x[1], -int(x[2]))):
                if fn == 'vspec.rs':
                    continue
                if any(a <= int(line) <= b for a, b in gone.get(fn, [])):
                    continue  # a second error inside a function that has just been pruned (its lines are gone: pruning again would hit a neighbour)
                name, a, b = self._prune_fn(os.path.join(crate, 'src', fn), int(line))
                if name:
                    pruned.setdefault(name, msg)
                    gone.setdefault(fn, []).append((a, b))
                    progress = True
            if not progress:
                errs = re.findall(r'^error[^\n]*(?:\n[^\n]*){0,6}', o, re.M)
                self.pruned[profile] = pruned
                return None, 'kani build of the woven crate failed: ' + (' | '.join(e.replace('\n', ' ') for e in errs[:3]) or o[-400:])
        else:
            self.pruned[profile] = pruned
            return None, 'kani build of the woven crate failed after pruning'
        self.pruned[profile] = pruned
        log('[build] woven crate (%s) compiled by Kani in %.0fs%s' % (profile, wall, (' after pruning ' + ','.join(sorted(pruned))) if pruned else ''))
        return crate, None

    @staticmethod
    def _prune_fn(path, line):
        """remove the top-level fn item (with its attributes and @obl comments) that contains `line`; returns its name"""
        lines = open(path).read().split('\n')
        k = min(line - 1, len(lines) - 1)
        start = None
        for j in range(k, -1, -1):
            if re.match(r'(pub(\(crate\))?\s+)?fn\s+\w+', lines[j]):
                start = j
                break
            if j < k and lines[j].startswith('}'):
                # the error is in an attribute block above a fn (e.g. an unresolved kani::stub path): look downwards instead
                break
        if start is None:
            for j in range(k, min(k + 12, len(lines))):
                if re.match(r'(pub(\(crate\))?\s+)?fn\s+\w+', lines[j]):
                    start = j
                    break
        if start is None:
            return None, 0, 0
        name = re.match(r'(?:pub(?:\(crate\))?\s+)?fn\s+(\w+)', lines[start]).group(1)
        end = start
        while end < len(lines) and not lines[end].startswith('}'):
            end += 1
        a = start
        while a > 0 and (lines[a - 1].startswith('#[') or lines[a - 1].startswith('//')):
            a -= 1
        lines[a:end + 1] = ['// [pruned: %s no longer compiles against this tree]' % name]
        open(path, 'w').write('\n'.join(lines))
        return name, a + 1, end + 1

    def acquire(self, gb):
        with self.cv:
            while self.mem_in_use + gb > TOTAL_MEM_GB and self.mem_in_use > 0:
                self.cv.wait()
            self.mem_in_use += gb

    def release(self, gb):
        with self.cv:
            self.mem_in_use -= gb
            self.cv.notify_all()

    def run_kani_obl(self, o, crate):
        self.acquire(o['mem_gb'])
        try:
            cmd = ['cargo', 'kani', '--harness', o['harness'], '--exact'] + KANI_FLAGS
            rc, out, wall, rss, to = run_cmd(cmd, crate, o['timeout_s'], mem_gb=o['mem_gb'] + 2)
        finally:
            self.release(o['mem_gb'])
        logp = os.path.join(self.scratch, 'logs', o['name'] + '.log')
        os.makedirs(os.path.dirname(logp), exist_ok=True)
        open(logp, 'w').write(out)
        c = classify_kani(out, rc, to, o['expect'])
        if 'no harnesses matched' in out.lower() or re.search(r'0 total', out) and c['verdict'] == 'undecided':
            c['reason'] = 'harness %s not found by Kani' % o['harness']
        res = dict(o)
        res.update(c)
        res.update(wall_s=round(wall, 1), rss_mb=rss, log=logp, crate=crate)
        # expectation handling
        if o['expect'] == 'fail':
            if c['verdict'] == 'failed':
                res['verdict'] = 'discharged'
                res['note'] = 'canary failed as it must'
            elif c['verdict'] == 'discharged' or (c['verdict'] == 'undecided' and 'vacuity' in c['reason']):
                res['verdict'] = 'undecided'
                res['reason'] = 'canary did not fail: the pipeline is not checking anything'
        log('[%-10s] %-44s %6.0fs %5d MB  %s %s' % (
            res['verdict'], o['name'], wall, rss, '' if res['verdict'] == 'discharged' else res.get('reason', ''),
            '; '.join(f['desc'] for f in res['failed'][:3]) if res['verdict'] == 'failed' else ''))
        return res

    # ---------------------------------------------------------- playback
    def playback(self, res):
        """re-run the failed harness with concrete playback, then execute the generated test natively"""
        crate = res['crate']
        o = res
        info = dict(attempted=True, test=None, native_failed=None, native_output=None)
        src_file = os.path.join(crate, 'src', o['file'])
        before = open(src_file).read()
        cmd = ['cargo', 'kani', '--harness', o['harness'], '--exact', '-Z', 'concrete-playback',
               '--concrete-playback=inplace'] + KANI_FLAGS
        rc, out, wall, rss, to = run_cmd(cmd, crate, 900, mem_gb=10)
        after = open(src_file).read()
        if to or after == before:
            info['reason'] = 'no playback test generated (%s)' % ('timeout' if to else 'tool produced none')
            info['kani_output_tail'] = out[-1500:]
            return info
        added = after[len(before):] if after.startswith(before) else after
        tests = re.findall(r'/// Check for `(\w+)`: "([^\n]*)"[ \t]*\n(?:[ \t]*///[^\n]*\n|[ \t]*\n)*\s*(#\[test\]\s*fn (kani_concrete_playback_\w+)\(\).*?\n\}\n)', added, re.S)
        descs = [f['desc'].strip('"') for f in res['failed']]
        cands = [t for t in tests if t[0] != 'cover' and any(d and d in t[1] for d in descs)]
        if not cands:
            cands = [t for t in tests if t[0] != 'cover']
        if not cands:
            info['reason'] = 'no playback test for a failed check'
            return info
        info['check'] = cands[0][1].strip('"')
        info['test'] = cands[0][2]
        info['test_name'] = cands[0][3]
        # keep only the chosen test in the source (Kani may emit the same test twice -> duplicate definitions)
        open(src_file, 'w').write(before + '\n' + info['test'] + '\n')
        cmd = ['cargo', 'kani', 'playback', '-Z', 'concrete-playback', '--', info['test_name']]
        env = dict(ENV)
        env['RUST_BACKTRACE'] = '0'
        rc, out, wall, rss, to = run_cmd(cmd, crate, 900, env=env)
        panics = re.findall(r'panicked at [^\n]*\n[^\n]*', out)
        info['native_panics'] = panics
        info['native_output'] = out[-2500:]
        # the native run must fail one of the *same* checks the verifier reported: either the same harness assertion
        # (message match), or -- when the verifier reported a panic/overflow/bounds check outside the harness --
        # a panic raised inside the real source files
        descs = [f['desc'].strip('"') for f in res['failed']]
        same = [p for p in panics if any(d and d in p for d in descs)]
        verifier_saw_code_panic = any('verif_' not in f['loc'] and 'vspec' not in f['loc'] for f in res['failed'])
        real_src_panic = [p for p in panics if re.search(r'panicked at src/(?!verif_|vspec)[\w/]+\.rs', p)]
        info['native_failed'] = bool(rc != 0 and (same or (verifier_saw_code_panic and real_src_panic)))
        if rc != 0 and not info['native_failed']:
            info['reason'] = 'native run failed, but not on a check the verifier reported'
        return info

    # ---------------------------------------------------------- driver
    def execute(self, obls):
        os.makedirs(self.scratch, exist_ok=True)
        kani_obls = [o for o in obls if o['backend'] == 'kani']
        other = [o for o in obls if o['backend'] != 'kani']
        profiles = sorted(set(o['profile'] for o in kani_obls))
        crates = {}

        def prep(p):
            uses = next(o['uses'] for o in kani_obls if o['profile'] == p)
            active = [o['name'] for o in kani_obls if o['profile'] == p]
            for o in kani_obls:
                if o['profile'] == p:
                    active += o.get('keep', [])  # proof harnesses that Kani wants to see next to a stub_verified use
            try:
                return self.prepare_kani(p, uses, active)
            except weave.WeaveError as e:
                return None, str(e)
        with cf.ThreadPoolExecutor(max_workers=6) as ex:
            built = list(ex.map(prep, profiles))
        for p, (crate, err) in zip(profiles, built):
            if crate is None:
                for o in kani_obls:
                    if o['profile'] == p:
                        r = dict(o)
                        r.update(verdict='undecided', reason=err, failed=[], checks=0, covers=0, covers_sat=0,
                                 wall_s=0, rss_mb=0, solver_s=None)
                        self.results.append(r)
            crates[p] = crate
        todo = []
        for o in kani_obls:
            if not crates.get(o['profile']):
                continue
            pr = self.pruned.get(o['profile'], {})
            if o['name'] in pr:
                r = dict(o)
                r.update(verdict='undecided', reason='lost anchor: the harness no longer compiles against this tree (%s)' % pr[o['name']][:200],
                         failed=[], checks=0, covers=0, covers_sat=0, wall_s=0, rss_mb=0, solver_s=None)
                log('[undecided ] %-44s %s' % (o['name'], r['reason']))
                self.results.append(r)
            else:
                todo.append(o)
        todo.sort(key=lambda o: -o['est_s'])
        with cf.ThreadPoolExecutor(max_workers=MAX_JOBS) as ex:
            futs = [ex.submit(self.run_kani_obl, o, crates[o['profile']]) for o in todo]
            for o in other:
                futs.append(ex.submit(o['run'], self, o))
            for f in futs:
                self.results.append(f.result())
        return self.results

    def cleanup(self):
        if not self.keep:
            shutil.rmtree(self.scratch, ignore_errors=True)
            try:
                os.rmdir(SCRATCH_ROOT)
            except OSError:
                pass

#!/usr/bin/env python3
"""selfcheck.py -- MANIFEST.setup_cmd.  Nothing to build: verifies the tools the checks need are present."""
import shutil
import subprocess
import sys

ok = True
for tool, args in (('cargo-kani', ['--version']), ('verus', ['--version']), ('cbmc', ['--version']), ('cargo', ['--version'])):
    p = shutil.which(tool)
    if not p:
        print('MISSING', tool)
        ok = False
        continue
    try:
        out = subprocess.run([tool] + args, capture_output=True, text=True, timeout=120).stdout.strip().split('\n')
        print(tool, '->', out[0] if out else '')
    except Exception as e:  # noqa
        print(tool, 'present but failed to run:', e)
        ok = False
sys.exit(0 if ok else 1)

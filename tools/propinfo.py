#!/usr/bin/env python3
"""propinfo.py -- per-property static text for the evidence files (level, trusted base, assumptions)."""

COMMON_TB = [
    'CBMC 6.11 + CaDiCaL/MiniSat soundness; Kani 0.68 MIR->goto translation (A4)',
    'rustc (the woven copy is compiled by the Kani toolchain, /repo by the stable toolchain)',
    'the spec vocabulary /verif/kani/vspec.rs is the oracle: mailbox-style restatement of the rules',
    'induction principle Init + Step => all reachable states (A2)',
]

PROPS = {}


def P(pid, level='proof', trusted=None, assumptions=None, explanation='', claimed=True, level_text='', level_note='',
      technique='', na_reason=None):
    PROPS[pid] = dict(level=level, trusted_base=COMMON_TB + (trusted or []), assumptions=assumptions or [],
                      explanation=explanation, claimed=claimed, level_text=level_text, level_note=level_note,
                      technique=technique, na_reason=na_reason)


ARITH = 'machine arithmetic is checked, not assumed mathematical (Kani overflow/shift checks on)'

A1 = 'A1 std semantics: Vec::extend(iter.map(f)), Vec::retain, Vec::contains, slice iteration act element-wise and in order (lifts "one representative per seam call" / "lists of length <= 3" to lists of any length)'
A2 = 'A2 induction principle: the reachable-state invariant (legal_board, wf_status, step <= 3, hash bookkeeping) is precondition and postcondition of every transition obligation; Init + Step => all reachable states is the one meta-level step'
A3 = 'A3 no 64-bit Zobrist collision between two distinct (board, side) pairs compared by the repetition rules (needed only to read hash-level statements at position level)'
A7 = 'A7 cross-tool assume/guarantee: Kani obligations see map_bit_board_to_squares / piece_board_value as stubs or ghost values whose contracts are discharged by Verus units; inside the Verus units pbv/fpb the seam is a contracted external (its contract is discharged by the unit seam) and squares_of is introduced by a definitional axiom; bits_for_piece, bits_by_piece_type, piece_value, Square::index and the constant tables are NOT trusted there (their real text is extracted and verified); the identity of the two renderings of each contract sentence is by inspection'
KANI = 'Kani harness-contracts (assume pre / call the real fn / assert post) and in-place Kani function contracts on the woven real crate, fully symbolic 64-bit boards, CBMC bit-blasting; callers composed against callee contracts via stubs'

P('C01',
  assumptions=[ARITH, A1, A2, A7],
  level_text='Every function between the property and the code carries a contract discharged for all well-formed boards, both sides, all statuses and step indices: freezing/threat masks and edge-masked shifts against per-square neighbour arithmetic; the three generators against the mailbox rule spec (simple_step, push_start, pull_complete, push_complete) with the bit-set->list seam cut by contract (Verus proves the seam); can_pass(false); the assembly of valid_actions_ against the generator contracts (content as a set, pull de-duplication, pass, no duplicates, every listed action a legal step from a real square); the status state machine and its invariant (a pending push always has a completion).',
  level_note='List layer rests on A1 (std Vec semantics) and on the seam contract proved by Verus (A7); clause (d) of DESIGN C01 (grammar lemma: greedy acceptor == parse into single steps/pushes/pulls) is not discharged and not claimed. No bound on boards.',
  technique=KANI + '; Verus for the seam loop')
P('C02',
  assumptions=[ARITH, A2],
  level_text='Contract of PieceBoard::take_action (through it move_piece / remove_trapped_pieces / trapped_piece_bits) discharged by CBMC for all legal boards (eight fully symbolic u64), all 64 source squares and 4 directions: per-square content equals the rule spec after_step_at, the eight words stay consistent, the capture flag is exact; lifted to GameState::take_action(Move) for each of the four step cases and to Pass (board unchanged) by the transition obligations. Loop-free code over full-width symbolic words: a proof, not a bounded check.',
  level_note='Trusted: CBMC/Kani soundness, the mailbox rule spec in kani/vspec.rs, the induction principle. No bound.',
  technique=KANI)
P('C03',
  assumptions=[ARITH, A2, 'move_number < usize::MAX is a precondition (machine range); the state with move_number == usize::MAX is known finding D4'],
  level_text='Postcondition of GameState::take_action for Move at each step 0..3 and Pass at steps 1..3, all boards/sides/statuses/move numbers: side, step counter (= length of the per-turn record, <= 3), move number (+1 exactly when Silver ends a turn), status None and fresh record at turn start.',
  level_note='One known finding (D4, usize::MAX move number) is reported as KNOWN-FINDING by a dedicated obligation; any other overflow there is a fresh violation.',
  technique=KANI)
P('C04',
  assumptions=[ARITH, A2, 'has_move == None <=> an action is offered is taken from C07\'s obligations (contract composition)'],
  level_text='is_terminal is proved equal to the six-line official order at step 0 (all well-formed boards, both sides), to has_move alone mid-turn, and to None in setup, composing the in-place contracts of rabbit_at_goal and lost_all_rabbits (goal ranks by rank arithmetic over all 8 files; last mover first) and the has_move contract.',
  level_note='Composition is modular: is_terminal is checked against spec stubs that the callee contracts prove equal to the callees. No bound.',
  technique='in-place Kani function contracts (proof_for_contract) on rabbit_at_goal / lost_all_rabbits + modular harness-contract for is_terminal')
P('C06',
  assumptions=[ARITH, A1, A2, A3, A7, 'history oracle: hash_history_contains_hash_twice is an uninterpreted function of the queried hash above the leaf'],
  level_text='Hash-level statement proved for every history: valid_actions_ applies the filter exactly when repetition checking is on, last, to the whole rule list; the filter removes exactly the passing-like actions and only on the 4th step of a capture-free turn; is_passing_like_action(step) <=> result hashes like the turn start or its other-side hash occurred twice (oracle); can_pass(true) likewise; actions that do not end the turn are never withheld.',
  level_note='Position-level reading ("equals the starting board", "third occurrence") is the hash-level statement under A3 plus C08. Lists of length <= 3 generalise by A1. The history leaf: list construction/observation is proved unbounded by Verus unit list; iteration and counting on the linked list is a bounded obligation under C05.',
  technique=KANI + ' with an uninterpreted history oracle and an uninterpreted passing-like predicate')
P('C07',
  assumptions=[ARITH, A1, A2],
  level_text='has_move is None exactly when valid_actions() is non-empty (proved modularly: has_move\'s logic against the generator/can_pass/filter contracts, the same contracts the assembly obligation of valid_actions_ uses) and otherwise a loss for the mover; is_terminal mid-turn == has_move; can_pass(f) <=> Pass is in valid_actions_(f) (assembly); setup always offers a placement and reports no result.',
  level_note='Equivalence of the two list constructions goes through the shared abstract generator outputs; lists of <= 1 action per generator generalise by A1.',
  technique=KANI + ', generators abstracted to their contracts')
P('C08',
  assumptions=[ARITH, A2, A7],
  level_text='Every transition obligation proves the hash update in difference form (hash\' == hash ^ side switch ^ STEP change ^ board delta), place/pass/exclude_step/transposition_hash are proved as XOR algebra over the real tables, Eq/Hash use exactly the board-state hash, recorded history entries are the new turn-start hashes; the composition "difference form + delta == Hb(old)^Hb(new) + H ==> hash\' == H(new position)" is itself a Verus lemma (unit chain).',
  level_note='The board delta piece_board_value == Hb(prev)^Hb(new) and from_piece_board == H(board,side,step) are Verus obligations on the mechanically extracted real loops (units pbv, fpb; real piece_value, Square::index, bits_for_piece and the real constant tables are extracted and verified there too; the seam is a contracted external proved in unit seam). A bounded concrete companion (eight capture scenarios) exists only to give a failing input when those units lose their anchors.',
  technique=KANI + '; Verus for the hashing loops and for the chain lemma that composes the two')
P('C09',
  assumptions=[ARITH, A2],
  level_text='One obligation over a symbolic placed-set satisfying the setup invariant (every prefix of every placement order of both armies at once): offered placements == types below complement in E,M,H,D,C,R order (non-empty), place() puts the piece on the n-th home square and changes nothing else, invariant preserved, side/phase/move-number switch at the 16th/32nd placement, hash update, history start.',
  level_note='No bound: n is symbolic in 0..31 and the board is any board satisfying the invariant.',
  technique=KANI)
P('C12',
  assumptions=[ARITH, A2],
  level_text='next_push_pull_state equals the rule state machine next_pp for every offered step on every well-formed board; the status invariant (vacated square empty, pushed piece not an elephant, pulling piece not a rabbit, an unfrozen strictly stronger friend adjacent to a pending push) is preserved by every offered step; must_complete_push_actions == steps of unfrozen strictly stronger friends into the vacated square, 1..4 of them; status None at every turn start.',
  level_note='No bound.',
  technique=KANI)
P('C13',
  assumptions=[ARITH, A2],
  level_text='trapped_animal_for_action agrees with PieceBoard::take_action on all legal boards and all steps onto an empty neighbour: None <=> nothing removed; otherwise the reported square/type/owner is the one and only piece removed; at most one capture per step.',
  level_note='No bound.',
  technique=KANI)
P('C14',
  assumptions=[ARITH, A2],
  level_text='The transition obligations prove the per-turn record after a step is the old record plus the old current board; piece_board_for_step(i) returns record[i] for i < k and the current board for i == k, for k = 0..3.',
  level_note='No bound beyond the step counter\'s own range 0..3 (proved invariant).',
  technique=KANI)
P('C16',
  assumptions=[ARITH, A7],
  level_text='Value level proved; the seam proved unbounded by Verus.',
  level_note='String-level obligations are bounded by string length (stated in the evidence).',
  technique='Verus on the extracted real loop; Kani for the finite value domains')
P('C17',
  assumptions=[ARITH, 'hash == H(board, side, step) is C08'],
  level_text='Injectivity of the real lookup functions over their complete finite domains with symbolic indices: 768 piece/square values non-zero and pairwise distinct, 641 status values pairwise distinct, STEP values distinct, PLAYER_TO_MOVE non-zero; transposition_hash == hash ^ status value.',
  level_note='Complete finite domain, symbolic indices: exhaustive.',
  technique='Kani lemmas over the real table lookups, symbolic indices')
P('C05',
  assumptions=[ARITH, A2, A7, 'history oracle above the leaf; of the leaf, the list constructors/observers (List::new/append/head/tail/len/is_empty/clone) are proved for lists of every length (Verus unit list, view = Seq), the iterator step contract (List::iter starts at the head; Iter::next yields the current node\'s element and advances to exactly its successor) is proved loop-free for an arbitrary node (c05_iter_step, no bound); what stays BOUNDED to lists of length <= 4 is the composition: the induction from that step to whole-list iteration and filter/count in hash_history_contains_hash_twice (c05_twice_leaf)',
               'std contracts assumed in Verus unit list: Arc::clone returns a pointer to the same value; Option::map_or applies the closure to the payload or returns the default; the three one-expression closures in List::head/tail/len get a typed header and an ensures clause (body text unchanged)',
               'the correspondence between each `requires` of the Verus lemma lemma_turn (verus/history.spec) and the Kani/Verus obligation that proves it on the real code is the table in DESIGN 12.7 (by inspection, not machine-checked)',
               'positions parsed from text start with history == [hash] by reading src/display.rs (FromStr for GameState is not under contract)'],
  level_text='The property is a lemma over contracts, machine-checked at spec level by Verus (verus/history.spec: lemma_turn + lemma_init, ghost sequence of turn-start positions, invariant J): from (h1) the hash is a function of board, side, step (C08 obligations + Verus units pbv/fpb), (h2) a turn-ending action of a capture-free turn is offered only if the result hashes unlike the turn start and its hash does not already occur twice in the history (C06 obligations; no collision assumption needed in this direction), (h3) the history is appended at every turn end and reset exactly at captures (transition obligations), (h4) material never increases and strictly decreases at a capture (C02/C10), (h5) "occurs twice" is counting on the real list (bounded leaf) it follows that the board after a completed turn differs from the board at its start, that board+side occurred at most once before at a turn start, and that the invariant holds again.',
  level_note='proof + bounded leaf: List::new/append/head/tail/len/is_empty/clone are proved unbounded (verus_list); List::iter / Iter::next satisfy their per-node step contract for every list (c05_iter_step, loop-free); hash_history_contains_hash_twice as a whole (iteration + filter + count) is checked for lists of length <= 4 only (labelled bounded in the evidence, not counted as proved).',
  technique='Verus spec-level induction lemma over the contracts; ' + KANI + ' for every hypothesis; Verus unit on the real linked-list methods (unbounded); bounded Kani harnesses for list iteration/counting')
P('C10',
  assumptions=[ARITH, A2, 'A5 core::fmt writes what it is given: the line/column layout of the printed diagram is not decided; only the per-cell codec is'],
  level_text='board_wf (word form) is proved equivalent to its per-square form and is pre/postcondition of every mutator (take_action, place); accessors bits_for_piece / player_piece_mask / bits_by_piece_type / piece_type_at_square / piece_type_at_bit equal their definitions over the abstract view at(); Square <-> index <-> bit <-> file/rank for all 64 squares; trap-cleanliness after every step; material limits from the setup invariant plus material-never-increases; diagram letters round-trip.',
  level_note='Printed diagram: per-cell only (A5). Material monotonicity as a popcount statement is a thorough-tier obligation (557 s); in the quick tier it follows from the per-square step postcondition.',
  technique=KANI)
P('C11',
  assumptions=[ARITH, A3 + ' (only for the clause about which actions the repetition rules withhold)'],
  level_text='Relational two-run lemmas on the real functions for the file mirror and for colour swap + rank flip (their composition follows): the board transforms are the per-square maps; PieceBoard::take_action, trapped_piece_bits, the freezing mask, the single-step and push-start masks handed to the seam, goal/elimination results, next_push_pull_state, push- and pull-completion lists all commute with the symmetry, for all well-formed boards.',
  level_note='The repetition clause follows from C06 at position level (A3): hashes of mirrored games are unrelated numbers. is_terminal/valid_actions as wholes commute because every component they are assembled from does (assembly obligations are symmetric in their generator outputs).',
  technique='Kani relational (two-run) lemmas over fully symbolic boards')
P('C16',
  assumptions=[ARITH, A7, 'anyhow error construction is cut at the first Err(..) (sound: in all four parsers nothing but another Err follows an inner Err)',
               'A5 Display impls are not decided; "printed form" is the byte spec in vspec.rs (file letter, rank digit, direction letter, piece letter)'],
  level_text='Value level (proof): all 64 squares, conversions mutually inverse, index/bit/file/rank formulas; the seam proved unbounded by Verus plus a bounded Kani companion. String level (BOUNDED): Square/Piece/Direction::from_str over all valid UTF-8 strings of <= 4 bytes, Action::from_str (modular, inner parsers replaced by their contracts) over all valid UTF-8 strings of <= 5 bytes: no panic, Ok only for the printed form of the result; every printed form of the 263 actions / 64 squares / 6 pieces / 4 directions parses back.',
  level_note='String obligations are bounded by byte length (stated per obligation). Three genuine defects found by these obligations were repaired in /repo (fix: commits 6b1daff, c2981a3), see known_findings.json.',
  technique='Kani over symbolic bounded UTF-8 strings with modular stubs of inner parsers; Verus for the seam loop')
P('C18', level='other',
  assumptions=['A6 Rust guarantees that shared access to Sync data without interior mutability is race-free and deterministic; the "every interleaving equals sequential" clause rests on that theorem and is not checked by a verifier here (Kani has no threads)'],
  explanation='Send + Sync obligations on the real types are discharged by rustc\'s trait solver on a client crate built against the working tree on every run; a source scan shows there is no interior mutability, no unsafe and no &mut self method on the state types; the persistence of the history list under append is proved for lists of every length by the Verus unit list (append takes &self and the view of its result is [e] ++ old view) with a bounded Kani companion. Not a deductive proof of the interleaving clause.',
  level_text='Type-level obligations (rustc) + no-interior-mutability scan + persistence obligation on the list; the interleaving clause follows from Rust\'s data-race-freedom guarantee for Sync types without interior mutability.',
  level_note='category other: rustc trait solving and a syntactic scan, not a program verifier. Kani cannot model threads.',
  technique='rustc auto-trait obligations on the real types + source scan')
P('C19',
  assumptions=[ARITH, A1, A2, A7, 'A5 Display (printed form) excluded; allocation failure and stack depth excluded',
               'interpretation: piece_board_for_step / current_step are play-phase queries (they unwrap the play phase by documented design)',
               'known finding D4 (move_number == usize::MAX) is outside the precondition'],
  level_text='Kani instruments every panic!, unwrap/expect, arithmetic overflow, shift >= width, slice index and unreachable! in the functions it executes; Verus does for the seam and hashing loops. C19 is the conjunction of those checks in the obligations of valid_actions(_no_rep), is_terminal, can_pass, has_move, transposition_hash, trapped_animal_for_action, piece_board_for_step, take_action for every offered action, and setup, under the reachable-state invariant.',
  level_note='The named panic sites (take_action non-Move arm, unwrap_play_phase, unwrap_must_complete_push, push_piece_value(Elephant), pull_piece_value(Rabbit), 1 << index, first_set_bit(0), previous_piece_boards[step]) are each reached under the invariant in some obligation and shown not to fire.',
  technique=KANI + ' (built-in panic/overflow/bounds checks); Verus overflow checks on the extracted loops')
P('C15', claimed=False, na_reason='FromStr/Display for GameState run through regex::Regex and str iterator adapter chains / fmt::Formatter; neither Kani (cannot symbolically execute or stub the regex engine) nor Verus (no str reasoning, no iterator adapters) can carry a contract that quantifies over all strings; the per-function facts it rests on are proved under C08/C10/C16 (DESIGN.md section 7, C15)')
P('C20', claimed=False, na_reason='the failure is recursion depth of compiler-generated drop glue for Option<Arc<Node<T>>>; stack use is not expressible as a pre/postcondition in Kani (no stack model) or Verus (does not model drop), and there is no function in the source to attach a contract to (DESIGN.md section 7, C20)')

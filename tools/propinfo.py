#!/usr/bin/env python3
"""propinfo.py -- per-property static text for the evidence files (level, trusted base, assumptions)."""

COMMON_TB = [
    'CBMC 6.11 + CaDiCaL/MiniSat soundness; Kani 0.68 MIR->goto translation (A4)',
    'rustc (the woven copy is compiled by the Kani toolchain, /repo by the stable toolchain)',
    'the spec vocabulary /verif/kani/vspec.rs is the oracle: mailbox-style restatement of the rules',
    'induction principle Init + Step => all reachable states (A2)',
]

PROPS = {}


def P(pid, level='proof', trusted=None, assumptions=None, explanation='', claimed=True, level_text='', level_note='',
      technique='', na_reason=None):
    PROPS[pid] = dict(level=level, trusted_base=COMMON_TB + (trusted or []), assumptions=assumptions or [],
                      explanation=explanation, claimed=claimed, level_text=level_text, level_note=level_note,
                      technique=technique, na_reason=na_reason)


ARITH = 'machine arithmetic is checked, not assumed mathematical (Kani overflow/shift checks on)'

P('C02',
  assumptions=[ARITH, 'A2 induction principle: legal_board is pre- and postcondition of every step'],
  level_text='Contract of PieceBoard::take_action (and through it move_piece / remove_trapped_pieces / trapped_piece_bits) '
             'discharged by CBMC for all legal boards (eight fully symbolic u64), all 64 source squares and 4 directions: per-square '
             'content equals the rule spec after_step_at, the eight words stay consistent, the capture flag is exact; lifted to '
             'GameState::take_action / pass by the transition obligations. Loop-free code over full-width symbolic words, so this is a proof, not a bounded check.',
  level_note='Trusted: CBMC/Kani soundness, the mailbox rule spec in kani/vspec.rs, the induction principle. No bound.',
  technique='Kani harness-contracts (assume pre / call real fn / assert post) over fully symbolic boards, CBMC bit-blasting')
P('C15', claimed=False, na_reason='FromStr/Display for GameState run through regex::Regex and str iterator adapter chains / fmt::Formatter; neither Kani (cannot symbolically execute or stub the regex engine) nor Verus (no str reasoning, no iterator adapters) can carry a contract that quantifies over all strings; the per-function facts it rests on are proved under C08/C10/C16 (DESIGN.md section 7, C15)')
P('C20', claimed=False, na_reason='the failure is recursion depth of compiler-generated drop glue for Option<Arc<Node<T>>>; stack use is not expressible as a pre/postcondition in Kani (no stack model) or Verus (does not model drop), and there is no function in the source to attach a contract to (DESIGN.md section 7, C20)')

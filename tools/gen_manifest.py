#!/usr/bin/env python3
"""gen_manifest.py -- writes /verif/MANIFEST.json from tools/propinfo.py (single source of the
per-property claims) and validates it against the schema when jsonschema is importable."""
import json
import os
import sys

sys.path.insert(0, os.path.dirname(os.path.abspath(__file__)))
import propinfo  # noqa: E402

VERIF = os.path.dirname(os.path.dirname(os.path.abspath(__file__)))
ALL = ['C%02d' % i for i in range(1, 21)]


def main():
    checks = []
    na = []
    for pid in ALL:
        info = propinfo.PROPS.get(pid)
        if info and info.get('claimed'):
            checks.append(dict(
                property_id=pid,
                quick_cmd='./check %s --tier quick' % pid,
                thorough_cmd='./check %s --tier thorough' % pid,
                evidence_file='/verif/evidence/%s.json' % pid,
                replay_cmd_template='./check replay {path}',
                engine='contracts',
                level_claimed=dict(category=info['level'], text=info['level_text'], design_ref=info.get('design_ref', 'DESIGN.md section 1 (as-built summary), section 7 ' + pid + ' (plan), section 12 (as built)')),
                level_note=info['level_note'],
                technique=info['technique']))
        else:
            reason = (info or {}).get('na_reason') or 'check not built yet in this session (work in progress; see DESIGN.md section 7 for the plan)'
            na.append(dict(property_id=pid, reason=reason))
    man = dict(
        version=1,
        setup_cmd='python3 tools/selfcheck.py',
        hooks=dict(
            guard='kani',
            enable='no source change in /repo: contracts are woven into a scratch copy of the working tree on every run (tools/weave.py); the only cfg involved is Kani\'s own cfg(kani), which exists in that copy alone',
            baseline_off_cmd='cd /repo && cargo test --workspace --no-fail-fast --offline',
            source_commits=[],
            add_only=True),
        engines=[dict(name='contracts', path='/verif/check', serves_properties=[c['property_id'] for c in checks],
                      kind_free_text='contract-based deductive verification: Kani 0.68 function contracts / harness contracts (CBMC) on the woven real crate, Verus on mechanically extracted real functions')],
        checks=checks,
        not_applicable=na,
        notes='exit codes of ./check: 0 held, 1 VIOLATION (line printed), 2 UNDECIDED (tool limit / lost anchor; never an alarm). Scratch under /var/tmp/verif-scratch is removed after every run.')
    json.dump(man, open(os.path.join(VERIF, 'MANIFEST.json'), 'w'), indent=1)
    try:
        import jsonschema
        jsonschema.validate(man, json.load(open('/root/.vp/MANIFEST.schema.json')))
        print('MANIFEST.json valid;', len(checks), 'checks,', len(na), 'not_applicable')
    except ImportError:
        print('MANIFEST.json written (jsonschema not importable here; run with python3-vt to validate)')


if __name__ == '__main__':
    main()
